"""Forking symbolic interpreter over the rs2json AST (re-execution forking, z3)."""
import hashlib
import json
import re
import time

import z3

from .values import *  # noqa: F401,F403

MAXLOOP = 64


EXTRA_CFGS = set()        # cfg attributes additionally treated as enabled (a driver may add 'cfg(walrus_verif)')


def cfg_ok(cfgs):
    for c in cfgs or []:
        c = c.replace(' ', '')
        if c in EXTRA_CFGS:
            continue
        if c in ('cfg(target_os="linux")', 'cfg(unix)'):
            continue
        if c.startswith('cfg(not('):
            inner = c[len('cfg(not('):-2]
            if inner in ('target_os="linux"', 'unix'):
                return False
            continue           # not(test), not(kani), not(walrus_verif) ... are true
        if c.startswith('cfg(any(') and ('unix' in c or 'target_os="linux"' in c):
            continue
        return False           # cfg(test), cfg(kani), cfg(walrus_verif), cfg(windows) ...
    return True


class Program:
    """All items of the anchored source files."""

    def __init__(self, docs):
        self.fns, self.methods, self.structs, self.enums, self.consts = {}, {}, {}, {}, {}
        self.files = {}
        for doc in docs:
            self.files[doc['file']] = doc.get('sha256')
            self.load(doc['items'], doc['file'])

    @staticmethod
    def from_jsonl(path):
        return Program([json.loads(l) for l in open(path)])

    def load(self, items, file):
        for it in items:
            k = it['k']
            if not cfg_ok(it.get('cfg')):
                continue
            it['_file'] = file
            if k == 'fn':
                self.fns[it['sig']['name']] = it
            elif k == 'impl':
                ty = it['self_ty'].split('<')[0]
                for m in it['items']:
                    if m['k'] == 'fn' and cfg_ok(m.get('cfg')):
                        m['_ty'] = ty
                        m['_file'] = file
                        m['_trait'] = it.get('trait')
                        self.methods[(ty, m['sig']['name'])] = m
                    elif m['k'] == 'const':
                        self.consts[ty + '::' + m['name']] = m
            elif k == 'struct':
                self.structs[it['name']] = it
            elif k == 'enum':
                self.enums[it['name']] = it
            elif k in ('const', 'static'):
                self.consts[it['name']] = it
            elif k == 'mod' and it.get('items') and it['name'] not in ('tests',):
                self.load(it['items'], file)


class NeedFork(Exception):
    """pure (merging) evaluation is not possible here: fall back to forking"""


class Prefix:
    """A point in the execution tree: branch decisions + memoised solver answers up to it."""
    __slots__ = ('dec', 'qlog')

    def __init__(self, dec=(), qlog=()):
        self.dec, self.qlog = list(dec), list(qlog)


class Exec:
    def __init__(self, prog, query_timeout_ms=20000, seed=0, overflow_checks=False):
        self.p = prog
        self.solver = z3.Solver()
        self.solver.set('timeout', query_timeout_ms)
        if seed:
            self.solver.set('random_seed', seed & 0x7fffffff)
        self.overflow_checks = overflow_checks
        self.stats = dict(paths=0, queries=0, solver_s=0.0, incomplete=0, unknown=0, transitions=0,
                          replayed_queries=0, panics=0)
        self.fn_models = {}
        self.method_models = {}
        self.overrides = {}
        self.encoded = {}          # (file, line, name) -> count
        self.type_hint = None
        self.pure = 0
        self.incomplete_reasons = {}
        from . import lib
        lib.install(self)

    # ------------------------------------------------------------------ exploration
    def run_path(self, driver, prefix):
        """run one path; returns (result | None, [alternative prefixes])"""
        self.decisions = list(prefix.dec)
        self.qlog = list(prefix.qlog)
        self.pos = 0
        self.qpos = 0
        self.new_alts = []
        self.fresh = 0
        self.globals = {}
        self.stack = []
        self.tys = []
        self.path_flags = set()
        self.solver.push()
        res = None
        try:
            res = driver(self)
        except PathEnd:
            res = None
        except Incomplete as e:
            self.stats['incomplete'] += 1
            key = str(e)[:120]
            self.incomplete_reasons[key] = self.incomplete_reasons.get(key, 0) + 1
            res = None
        finally:
            self.solver.pop()
        self.stats['paths'] += 1
        return res, self.new_alts

    def explore(self, driver, max_paths=100000, deadline=None, start=None, on_result=None):
        work = list(start) if start else [Prefix()]
        results = []
        while work:
            if self.stats['paths'] >= max_paths or (deadline and time.time() > deadline):
                break
            pre = work.pop()
            r, alts = self.run_path(driver, pre)
            if r is not None:
                results.append(r)
                if on_result:
                    on_result(r)
            work.extend(alts)
        self.leftover = work
        return results

    # ------------------------------------------------------------------ solver access (memoised along the path)
    def memo(self, fn):
        if self.qpos < len(self.qlog):
            r = self.qlog[self.qpos]
            self.stats['replayed_queries'] += 1
        else:
            r = fn()
            self.qlog.append(r)
        self.qpos += 1
        return r

    def _raw_check(self, extra):
        t = time.time()
        self.stats['queries'] += 1
        r = self.solver.check(*extra)
        self.stats['solver_s'] += time.time() - t
        if r == z3.sat:
            return 'sat'
        if r == z3.unsat:
            return 'unsat'
        self.stats['unknown'] += 1
        return 'unknown'

    def check(self, *extra):
        return self.memo(lambda: self._raw_check(extra))

    def sat(self, cond=None):
        """may cond hold on this path? unknown counts as 'may'."""
        if isinstance(cond, bool):
            return cond
        r = self.check(cond) if cond is not None else self.check()
        if r == 'unknown':
            self.path_flags.add('unknown')
        return r != 'unsat'

    def valid(self, cond):
        if isinstance(cond, bool):
            return cond
        s = z3.simplify(cond)
        if z3.is_true(s):
            return True
        if z3.is_false(s):
            return False
        return self.check(z3.Not(s)) == 'unsat'

    def assume(self, cond):
        if isinstance(cond, bool):
            if not cond:
                raise PathEnd()
            return
        self.solver.add(cond)

    def branch(self, cond):
        if isinstance(cond, bool):
            return cond
        cond = z3.simplify(cond)
        if z3.is_true(cond):
            return True
        if z3.is_false(cond):
            return False
        if self.pure:
            raise NeedFork()
        if self.pos < len(self.decisions):
            d = self.decisions[self.pos]
            self.pos += 1
            self.solver.add(cond if d else z3.Not(cond))
            return d
        q0 = self.qpos
        can_t = self.sat(cond)
        can_f = self.sat(z3.Not(cond))
        if can_t and can_f:
            self.new_alts.append(Prefix(self.decisions[:self.pos] + [False], self.qlog[:q0]))
            d = True
        elif can_t:
            d = True
        elif can_f:
            d = False
        else:
            raise PathEnd()
        # the answers of the two feasibility checks are not needed on replay (decision is recorded)
        del self.qlog[q0:]
        self.qpos = q0
        self.decisions = self.decisions[:self.pos] + [d]
        self.pos += 1
        self.stats['transitions'] += 1
        self.solver.add(cond if d else z3.Not(cond))
        return d

    def choose(self, n, what):
        """fork over an integer choice 0..n-1 (driver-level nondeterminism)."""
        for i in range(n - 1):
            if self.branch(z3.Bool('%s_is_%d@%d' % (what, i, self.pos))):
                return i
        return n - 1

    def flip(self, what):
        return self.branch(z3.Bool('%s@%d' % (what, self.pos)))

    def symbv(self, name, bits=64, signed=False):
        self.fresh += 1
        return BV(z3.BitVec('%s#%d' % (name, self.fresh), bits), bits, signed)

    def symint(self, name):
        self.fresh += 1
        return z3.Int('%s#%d' % (name, self.fresh))

    def concretize(self, term):
        """value of term if it is uniquely determined on this path, else None"""
        t = z3.simplify(term)
        if z3.is_bv_value(t) or z3.is_int_value(t):
            return t.as_long()

        def compute():
            t0 = time.time()
            self.stats['queries'] += 1
            r = self.solver.check()
            self.stats['solver_s'] += time.time() - t0
            if r != z3.sat:
                return 'infeasible' if r == z3.unsat else None
            v = self.solver.model().eval(t, model_completion=True)
            t0 = time.time()
            self.stats['queries'] += 1
            r2 = self.solver.check(t != v)
            self.stats['solver_s'] += time.time() - t0
            return v.as_long() if r2 == z3.unsat else None
        r = self.memo(compute)
        if r == 'infeasible':
            raise PathEnd()
        return r

    def _model_value(self, t):
        self.stats['queries'] += 1
        if self.solver.check() != z3.sat:
            return None
        return self.solver.model().eval(t, model_completion=True).as_long()

    def model_values(self, terms):
        """concrete values for named terms from a model of the current path condition (+extra)."""
        if self.solver.check() != z3.sat:
            return None
        m = self.solver.model()
        out = {}
        for k, t in terms.items():
            v = m.eval(t, model_completion=True)
            out[k] = v.as_long() if hasattr(v, 'as_long') else (z3.is_true(v))
        return out

    # ------------------------------------------------------------------ helpers
    def deref(self, v):
        while True:
            if isinstance(v, Guard):
                v = v.lock.cell.v
            elif isinstance(v, Arc):
                v = v.v
            elif isinstance(v, CellRef):
                v = v.d[v.k]
            elif isinstance(v, PtrCell):
                v = v.cell.v
            elif isinstance(v, VVec) and v.buf is not None:
                v = v.buf
            else:
                return v

    def tobv(self, v, bits=64):
        v = self.deref(v)
        if isinstance(v, BV):
            return v
        if isinstance(v, IntLit):
            b = v.bits or bits
            return BV(z3.BitVecVal(v.v, b), b)
        if isinstance(v, bool):
            raise Unsupported('tobv of bool')
        if isinstance(v, int):
            return BV(z3.BitVecVal(v, bits), bits)
        raise Unsupported('tobv %r' % (v,))

    def coerce(self, a, b):
        a = self.deref(a)
        b = self.deref(b)
        if isinstance(a, BV) and not isinstance(b, BV):
            b = self.tobv(b, a.bits)
            b.signed = a.signed
        elif isinstance(b, BV) and not isinstance(a, BV):
            a = self.tobv(a, b.bits)
            a.signed = b.signed
        elif isinstance(a, IntLit) and isinstance(b, IntLit):
            bits = a.bits or b.bits or 64
            a = self.tobv(a, bits)
            b = self.tobv(b, bits)
        elif isinstance(a, IntU) and isinstance(b, IntLit):
            b = IntU(z3.IntVal(b.v), a.bits)
        elif isinstance(b, IntU) and isinstance(a, IntLit):
            a = IntU(z3.IntVal(a.v), b.bits)
        if isinstance(a, BV) and isinstance(b, BV) and a.bits != b.bits:
            raise Unsupported('width mismatch %d %d' % (a.bits, b.bits))
        return a, b

    def clone(self, v):
        if isinstance(v, (Guard, CellRef, PtrCell)):
            return self.clone(self.deref(v))
        if isinstance(v, Arc):
            v.strong += 1
            return v
        if isinstance(v, Struct):
            return Struct(v.name, {k: self.clone(x) for k, x in v.f.items()})
        if isinstance(v, VVec):
            return VVec([self.clone(x) for x in v.items])
        if isinstance(v, VMap):
            m = VMap()
            m.d = {k: self.clone(x) for k, x in v.d.items()}
            return m
        if isinstance(v, Buffer):
            return Buffer(list(v.chunks))
        if isinstance(v, EnumV):
            return EnumV(v.enum, v.variant, [self.clone(x) for x in v.f] if isinstance(v.f, list)
                         else {k: self.clone(x) for k, x in v.f.items()})
        if isinstance(v, tuple):
            return tuple(self.clone(x) for x in v)
        if isinstance(v, VStr):
            return VStr(v.c)
        return v   # BV, PStr, bool, shared handles

    # ------------------------------------------------------------------ calls
    def call(self, ty, name, args, self_val=None):
        """driver convenience: call a method/fn of the program"""
        if ty is None:
            return self.call_fn(self.p.fns[name], args)
        return self.call_fn(self.p.methods[(ty, name)], args, self_val)

    def call_fn(self, item, args, self_val=None):
        key = (item.get('_file'), item.get('line'), (item.get('_ty') or '') + '::' + item['sig']['name'])
        self.encoded[key] = self.encoded.get(key, 0) + 1
        self.stack.append(item['sig']['name'])
        self.tys.append(item.get('_ty') or (self.tys[-1] if self.tys else None))
        try:
            return self.call_fn2(item, args, self_val)
        except Unsupported as u:
            if not hasattr(u, 'stk'):
                u.stk = list(self.stack)
            raise
        finally:
            self.stack.pop()
            self.tys.pop()

    def call_fn2(self, item, args, self_val=None):
        env = [{}]
        ai = 0
        for prm in item['sig']['params']:
            if prm.get('self'):
                env[0]['self'] = Cell(self_val)
            else:
                a = args[ai]
                ai += 1
                ty = prm.get('ty', '')
                if ty in INT_TYPES and isinstance(self.deref(a), (IntLit, int)) and not isinstance(self.deref(a), bool):
                    a = self.tobv(a, INT_TYPES[ty])
                self.bind(prm['pat'], a, env)
        try:
            return self.block(item['body'], env)
        except Return as r:
            return r.v

    def call_closure(self, c, args):
        if isinstance(c, tuple) and c and c[0] == 'fnref':
            return self.call_fn(self.p.fns[c[1]], args)
        if isinstance(c, tuple) and c and c[0] == 'methodref':
            m = self.p.methods[(c[1], c[2])]
            if m['sig']['params'] and m['sig']['params'][0].get('self'):
                return self.call_fn(m, args[1:], self.deref(args[0]))
            return self.call_fn(m, args)
        if isinstance(c, tuple) and c and c[0] == 'ctor':
            return c[1](*args)
        env = c.env + [{}]
        for p, a in zip(c.params, args):
            self.bind(p, a, env)
        if not self.pure and args and all(isinstance(a, CharV) for a in args):
            # closures over a single char are evaluated without forking when they are pure (If-merging)
            self.pure += 1
            try:
                return self.eval(c.body, env)
            except NeedFork:
                pass
            finally:
                self.pure -= 1
        saved = self.tys
        if c.tys is not None:
            self.tys = c.tys
        try:
            return self.eval(c.body, env)
        except Return as r:
            return r.v          # `return` inside a closure returns from the closure
        finally:
            self.tys = saved

    # ------------------------------------------------------------------ patterns
    def bind(self, pat, val, env):
        k = pat['k']
        if k == 'ident':
            if pat.get('sub'):
                if not self.match(pat['sub'], val, env):
                    return False
            env[-1][pat['name']] = Cell(val)
            return True
        if k == 'wild':
            return True
        if k in ('typed', 'ref'):
            if k == 'typed' and pat.get('ty') in INT_TYPES and isinstance(self.deref(val), IntLit):
                val = self.tobv(val, INT_TYPES[pat['ty']])
            return self.bind(pat['pat'], val, env)
        if k == 'tuple':
            val = self.deref(val)
            if not pat['elems']:
                return True
            ok = True
            for p, v in zip(pat['elems'], val):
                ok = self.match(p, v, env) and ok
            return ok
        return self.match(pat, val, env)

    def match(self, pat, val, env):
        k = pat['k']
        if k == 'ident':
            if pat['name'] == 'None':
                v = self.deref(val)
                return isinstance(v, EnumV) and v.variant == 'None'
            return self.bind(pat, val, env)
        if k in ('wild', 'typed', 'tuple', 'ref'):
            return self.bind(pat, val, env)
        val = self.deref(val)
        if k == 'path':
            name = pat['path']['segs'][-1]['id']
            if isinstance(val, EnumV):
                return val.variant == name
            if isinstance(val, ConstV):
                return val.last() == name
            raise Unsupported('path pattern on %r' % type(val))
        if k == 'tuple_struct':
            name = pat['path']['segs'][-1]['id']
            if not (isinstance(val, EnumV) and val.variant == name):
                return False
            fl = val.f if isinstance(val.f, list) else list(val.f.values())
            for p, v in zip(pat['elems'], fl):
                if not self.match(p, v, env):
                    return False
            return True
        if k == 'struct':
            name = pat['path']['segs'][-1]['id']
            if isinstance(val, EnumV) and val.variant != name:
                return False
            for f in pat['fields']:
                if not self.match(f['pat'], val.f[f['name']], env):
                    return False
            return True
        if k == 'lit':
            l = self.e_lit(pat['lit'], env)
            return self.branch(self.binop('==', val, l))
        if k == 'or':
            for c in pat['cases']:
                if self.match(c, val, env):
                    return True
            return False
        if k == 'range':
            m = re.fullmatch(r"(.+?)\s*\.\.=\s*(.+)", pat['s'])
            if not m:
                raise Unsupported('range pattern ' + pat['s'])
            lo, hi = (self.parse_tiny_lit(x.strip()) for x in m.groups())
            return self.branch(self.land(self.binop('>=', val, lo), self.binop('<=', val, hi)))
        raise Unsupported('match ' + k)

    def parse_tiny_lit(self, s):
        if s.startswith("'") and s.endswith("'") and len(s) == 3:
            return CharV(ord(s[1]))
        if s.startswith("b'") and len(s) == 4:
            return IntLit(ord(s[2]), 8)
        if re.fullmatch(r'\d+', s):
            return IntLit(int(s))
        raise Unsupported('literal ' + s)

    def land(self, a, b):
        if isinstance(a, bool):
            return b if a else False
        if isinstance(b, bool):
            return a if b else False
        return z3.And(a, b)

    def lor(self, a, b):
        if isinstance(a, bool):
            return True if a else b
        if isinstance(b, bool):
            return True if b else a
        return z3.Or(a, b)

    def lnot(self, a):
        return (not a) if isinstance(a, bool) else z3.Not(a)

    # ------------------------------------------------------------------ blocks
    def register_local_items(self, b, env):
        pushed = 0
        for st in b['stmts']:
            if st['k'] != 'item':
                continue
            it = st['item']
            k = it['k']
            if k == 'impl':
                ty = it['self_ty'].split('<')[0]
                for m in it['items']:
                    if m['k'] == 'fn':
                        m['_ty'] = ty
                        m['_trait'] = it.get('trait')
                        m.setdefault('_file', self.cur_file())
                        self.p.methods[(ty, m['sig']['name'])] = m
            elif k == 'static':
                gname = 'local_static:%s:%s' % (it['name'], it.get('line', 0))
                if gname not in self.globals:
                    self.globals[gname] = Cell(self.eval(it['e'], [{}]))
                env.append({it['name']: self.globals[gname]})
                pushed += 1
            elif k == 'struct':
                self.p.structs[it['name']] = it
            elif k == 'enum':
                self.p.enums[it['name']] = it
            elif k == 'fn':
                it.setdefault('_file', self.cur_file())
                self.p.fns[it['sig']['name']] = it
        return pushed

    def cur_file(self):
        return None

    def block(self, b, env):
        pushed = self.register_local_items(b, env)
        env.append({})
        try:
            last = UNIT
            for st in b['stmts']:
                last = UNIT
                if not cfg_ok(st.get('cfg')):
                    continue
                k = st['k']
                if k == 'let':
                    self.type_hint = st['pat'].get('ty') if st['pat']['k'] == 'typed' else None
                    v = self.eval(st['init'], env) if st['init'] else None
                    self.type_hint = None
                    if st.get('else') is not None:
                        env.append({})
                        ok = self.match(st['pat'], v, env)
                        sc = env.pop()
                        if not ok:
                            self.eval(st['else'], env)
                            raise Unsupported('let-else fallthrough')
                        env[-1].update(sc)
                    else:
                        self.bind(st['pat'], v, env)
                elif k == 'expr':
                    if not cfg_ok(st['e'].get('cfg')):
                        continue
                    v = self.eval(st['e'], env)
                    if not st['semi']:
                        last = v
                elif k == 'item':
                    it = st['item']
                    if it['k'] == 'const':
                        v = self.eval(it['e'], env)
                        if it.get('ty') in INT_TYPES:
                            v = self.tobv(v, INT_TYPES[it['ty']])
                        env[-1][it['name']] = Cell(v)
            return last
        except Panic:
            self.scope_exit(env[-1], panicking=True)
            raise
        finally:
            sc = env.pop()
            self.scope_exit(sc, panicking=False)
            for _ in range(pushed):
                env.pop()

    def scope_exit(self, scope, panicking):
        """RAII: release guards, run Drop impls; poison locks on panic."""
        for name, cell in list(scope.items()):
            v = cell.v
            if isinstance(v, Guard):
                if panicking and v.mode != 'read' and not v.released:
                    v.lock.poisoned = True
                if not panicking:
                    self.release_guard(v)
            elif isinstance(v, Struct) and not panicking and (v.name, 'drop') in self.p.methods \
                    and not getattr(cell, 'moved', False):
                m = self.p.methods[(v.name, 'drop')]
                if m.get('_trait') == 'Drop':
                    cell.moved = True
                    self.call_fn(m, [], v)
        if panicking:
            # Drop impls also run during unwinding (BatchGuard releases its flag)
            for name, cell in list(scope.items()):
                v = cell.v
                if isinstance(v, Struct) and (v.name, 'drop') in self.p.methods and not getattr(cell, 'moved', False):
                    m = self.p.methods[(v.name, 'drop')]
                    if m.get('_trait') == 'Drop':
                        cell.moved = True
                        try:
                            self.call_fn(m, [], v)
                        except Panic:
                            pass
            scope.clear()

    def release_guard(self, g):
        if not g.released:
            g.released = True
            hook = getattr(self, 'on_release', None)
            if hook:
                hook(g)

    def lookup(self, name, env):
        for sc in reversed(env):
            if name in sc:
                return sc[name]
        return None

    # ------------------------------------------------------------------ expressions
    def eval(self, e, env):
        m = getattr(self, 'e_' + e['k'], None)
        if not m:
            raise Unsupported('expr %s line %s' % (e['k'], e.get('line')))
        return m(e, env)

    def e_other(self, e, env):
        raise Unsupported('expr other: %s line %s' % (e.get('s', '')[:40], e.get('line')))

    def e_lit(self, e, env):
        t = e['t']
        if t == 'int':
            return IntLit(int(e['v']), INT_TYPES.get(e['suffix'], 0))
        if t == 'bool':
            return e['v']
        if t == 'str':
            if getattr(self, 'symbolic_strings', False):
                return VStr([z3.IntVal(ord(c)) for c in e['v']])
            return PStr(e['v'])
        if t == 'bytestr':
            return Buffer([Bytes(list(e['v']))])
        if t == 'char':
            return CharV(e['v'])
        if t == 'byte':
            return IntLit(e['v'], 8)
        raise Unsupported('lit ' + t)

    def global_cell(self, name):
        if name not in self.globals:
            it = self.p.consts[name]
            v = self.eval(it['e'], [{}])
            if it.get('ty') in INT_TYPES:
                v = self.tobv(v, INT_TYPES[it['ty']])
            self.globals[name] = Cell(v)
        return self.globals[name]

    MAXES = {'usize::MAX': (2 ** 64 - 1, 64), 'u64::MAX': (2 ** 64 - 1, 64), 'u32::MAX': (2 ** 32 - 1, 32),
             'u16::MAX': (2 ** 16 - 1, 16), 'u8::MAX': (255, 8), 'std::u64::MAX': (2 ** 64 - 1, 64),
             'i32::MAX': (2 ** 31 - 1, 32)}

    def e_path(self, e, env):
        segs = e['path']['segs']
        name = segs[-1]['id']
        s = e['path']['s']
        if len(segs) == 1:
            c = self.lookup(name, env)
            if c is not None:
                if getattr(c, 'moved', None) is False:
                    pass
                return c.v
            if name == 'None':
                return NONE
            if name in self.p.consts:
                it = self.p.consts[name]
                if it['k'] == 'static':
                    return self.global_cell(name).v
                v = self.eval(it['e'], [{}])
                if it.get('ty') in INT_TYPES:
                    v = self.tobv(v, INT_TYPES[it['ty']])
                return v
            if name in self.p.fns:
                return ('fnref', name)
            if name in ('Some',):
                return ('ctor', Some)
            if name in ('Ok',):
                return ('ctor', Ok)
            if name in ('Err',):
                return ('ctor', Err)
        else:
            en = segs[-2]['id']
            if en == 'Self':
                en = self.tys[-1]
            if en in self.p.enums:
                return EnumV(en, name)
            if s in self.MAXES:
                v, b = self.MAXES[s]
                return BV(z3.BitVecVal(v, b), b)
            key = en + '::' + name
            if key in self.p.consts:
                it = self.p.consts[key]
                v = self.eval(it['e'], [{}])
                if it.get('ty', '').replace(' ', '') in INT_TYPES:
                    v = self.tobv(v, INT_TYPES[it['ty'].replace(' ', '')])
                return v
            if name in self.p.consts and self.p.consts[name]['k'] == 'static':
                return self.global_cell(name).v
            if (en, name) in self.p.methods:
                return ('methodref', en, name)
            if en in ('Ordering', 'ErrorKind', 'RecvTimeoutError', 'TryRecvError') or s in ('rkyv::Infallible', 'SystemTime::UNIX_EPOCH', 'libc::O_SYNC'):
                return ConstV(s)
            if s in self.fn_models:
                return ('ctor', lambda *a: self.fn_models[s](self, list(a), e))
        raise Unsupported('path %s line %s' % (s, e.get('line')))

    def panic_overflow(self, cond, what):
        if self.overflow_checks and not isinstance(cond, bool):
            if self.branch(cond):
                self.path_flags.add('overflow')
                raise Panic('arithmetic overflow (debug profile): ' + what)

    def binop(self, op, a, b):
        a, b = self.coerce(a, b)
        if isinstance(a, BV):
            x, y = a.t, b.t
            sg = a.signed or b.signed
            n = a.bits
            if op == '+':
                self.panic_overflow(z3.ULT(x + y, x), 'add')
                return BV(x + y, n, sg)
            if op == '-':
                self.panic_overflow(z3.ULT(x, y), 'sub')
                return BV(x - y, n, sg)
            if op == '*':
                return BV(x * y, n, sg)
            if op in ('/', '%'):
                if self.sat(y == 0) and self.branch(y == 0):
                    raise Panic('division by zero')
                yc = z3.simplify(y)
                if z3.is_bv_value(yc) and not z3.is_bv_value(z3.simplify(x)):
                    # division lemma with fresh quotient/remainder instead of a bit-blasted divider
                    d = yc.as_long()
                    q = self.symbv('q', n).t
                    r = self.symbv('r', n).t
                    self.solver.add(z3.ULT(r, yc), z3.ULE(q, z3.BitVecVal((2 ** n - 1) // d, n)), q * yc + r == x)
                    if op == '/' and getattr(self, 'eager_div', 0):
                        # small quotient domain: fork over its values now, so that everything derived from it is concrete
                        for _ in range(self.eager_div):
                            v = self.memo(lambda: self._model_value(q))
                            if v is None:
                                raise PathEnd()
                            if self.branch(q == v):
                                return BV(z3.BitVecVal(v, n), n, sg)
                    return BV(q if op == '/' else r, n, sg)
                return BV(z3.UDiv(x, y) if op == '/' else z3.URem(x, y), n, sg)
            if op == '&':
                return BV(x & y, n, sg)
            if op == '|':
                return BV(x | y, n, sg)
            if op == '^':
                return BV(x ^ y, n, sg)
            if op == '<<':
                return BV(x << y, n, sg)
            if op == '>>':
                return BV((x >> y) if sg else z3.LShR(x, y), n, sg)
            if op == '<':
                return (x < y) if sg else z3.ULT(x, y)
            if op == '<=':
                return (x <= y) if sg else z3.ULE(x, y)
            if op == '>':
                return (x > y) if sg else z3.UGT(x, y)
            if op == '>=':
                return (x >= y) if sg else z3.UGE(x, y)
            if op == '==':
                return x == y
            if op == '!=':
                return x != y
        if isinstance(a, IntU) and isinstance(b, IntU):
            x, y = a.t, b.t
            if op == '+':
                return IntU(x + y, a.bits)
            tbl = {'==': x == y, '!=': x != y, '<': x < y, '<=': x <= y, '>': x > y, '>=': x >= y}
            if op in tbl:
                return tbl[op]
        if isinstance(a, CharV) and isinstance(b, CharV):
            x, y = a.t, b.t
            tbl = {'==': x == y, '!=': x != y, '<': x < y, '<=': x <= y, '>': x > y, '>=': x >= y}
            return tbl[op]
        if isinstance(a, PStr) and isinstance(b, PStr):
            return {'==': a.v == b.v, '!=': a.v != b.v}[op]
        if isinstance(a, VStr) or isinstance(b, VStr):
            a = self.to_vstr(a)
            b = self.to_vstr(b)
            if len(a.c) != len(b.c):
                eq = False
            elif not a.c:
                eq = True
            else:
                eq = z3.And([p == q for p, q in zip(a.c, b.c)])
            return eq if op == '==' else self.lnot(eq)
        if isinstance(a, ConstV) and isinstance(b, ConstV):
            return (a.last() == b.last()) if op == '==' else (a.last() != b.last())
        if isinstance(a, bool) and isinstance(b, bool):
            if op == '==':
                return a == b
            if op == '!=':
                return a != b
            if op == '&':
                return a and b
            if op == '|':
                return a or b
        if (isinstance(a, bool) or z3.is_bool(a)) and (isinstance(b, bool) or z3.is_bool(b)):
            az = z3.BoolVal(a) if isinstance(a, bool) else a
            bz = z3.BoolVal(b) if isinstance(b, bool) else b
            if op == '==':
                return az == bz
            if op == '!=':
                return az != bz
            if op == '&':
                return z3.And(az, bz)
            if op == '|':
                return z3.Or(az, bz)
        if isinstance(a, EnumV) and isinstance(b, EnumV) and not a.f and not b.f:
            return (a.variant == b.variant) if op == '==' else (a.variant != b.variant)
        if isinstance(a, EnumV) and isinstance(b, EnumV) and op in ('==', '!='):
            if a.variant != b.variant:
                r = False
            else:
                r = True
                for p, q in zip(a.f, b.f):
                    r = self.land(r, self.binop('==', p, q))
            return r if op == '==' else self.lnot(r)
        if isinstance(a, tuple) and isinstance(b, tuple) and op in ('==', '!='):
            r = True
            for p, q in zip(a, b):
                r = self.land(r, self.binop('==', p, q))
            return r if op == '==' else self.lnot(r)
        raise Unsupported('binop %s %r %r' % (op, a, b))

    def to_vstr(self, v):
        v = self.deref(v)
        if isinstance(v, VStr):
            return v
        if isinstance(v, PStr):
            return VStr([z3.IntVal(ord(c)) for c in v.v])
        raise Unsupported('to_vstr %r' % type(v))

    def e_binary(self, e, env):
        op = e['op']
        if self.pure and op in ('&&', '||'):
            a = self.eval(e['l'], env)
            b = self.eval(e['r'], env)
            return self.land(a, b) if op == '&&' else self.lor(a, b)
        if op == '&&':
            if not self.branch(self.eval(e['l'], env)):
                return False
            return self.eval(e['r'], env)
        if op == '||':
            if self.branch(self.eval(e['l'], env)):
                return True
            return self.eval(e['r'], env)
        if op.endswith('=') and op not in ('==', '<=', '>=', '!='):
            r = self.eval(e['r'], env)
            get, put = self.place(e['l'], env)
            cur = get()
            curd = self.deref(cur)
            if isinstance(curd, BV) and not isinstance(self.deref(r), BV):
                r = self.tobv(r, curd.bits)
            if op[:-1] in ('<<', '>>'):
                r = self.shift_amount(curd, r)
            put(self.binop(op[:-1], curd, r))
            return UNIT
        a = self.eval(e['l'], env)
        b = self.eval(e['r'], env)
        if op in ('<<', '>>'):
            b = self.shift_amount(self.deref(a), b)
        return self.binop(op, a, b)

    def shift_amount(self, a, b):
        b = self.deref(b)
        if isinstance(a, IntLit):
            return b
        if isinstance(a, BV):
            if isinstance(b, BV):
                if b.bits < a.bits:
                    return BV(z3.ZeroExt(a.bits - b.bits, b.t), a.bits)
                if b.bits > a.bits:
                    return BV(z3.Extract(a.bits - 1, 0, b.t), a.bits)
                return b
            return self.tobv(b, a.bits)
        return b

    def e_unary(self, e, env):
        v = self.eval(e['e'], env)
        op = e['op']
        if op == '!':
            v = self.deref(v)
            if isinstance(v, BV):
                return BV(~v.t, v.bits, v.signed)
            if isinstance(v, IntLit):
                raise Unsupported('! on untyped literal')
            return (not v) if isinstance(v, bool) else z3.Not(v)
        if op == '*':
            if isinstance(v, Guard):
                return v.lock.cell.v
            if isinstance(v, Cell):
                return v.v
            if isinstance(v, CellRef):
                return v.d[v.k]
            if isinstance(v, PtrCell):
                return v.cell.v
            return v
        if op == '-':
            v = self.deref(v)
            if isinstance(v, IntLit):
                return IntLit(-v.v, v.bits)
            if isinstance(v, BV):
                return BV(-v.t, v.bits, True)
        raise Unsupported('unary ' + op)

    # places
    def place(self, e, env):
        k = e['k']
        if k == 'path':
            c = self.lookup(e['path']['segs'][-1]['id'], env)
            if c is None:
                name = e['path']['segs'][-1]['id']
                if name in self.p.consts and self.p.consts[name]['k'] == 'static':
                    c = self.global_cell(name)
                else:
                    raise Unsupported('place path ' + e['path']['s'])
            if isinstance(c.v, PtrCell):
                pc = c.v.cell
                # assignment to a `&mut T` variable itself is rare; treat `x = v` as rebinding
            return (lambda: c.v), (lambda v: setattr(c, 'v', v))
        if k == 'field':
            b = self.deref(self.eval(e['base'], env))
            m = e['member']
            if isinstance(b, (Struct, EnumV)) and isinstance(b.f, dict):
                return (lambda: b.f[m]), (lambda v: b.f.__setitem__(m, v))
            if isinstance(b, tuple):
                raise Unsupported('assignment into tuple field')
            raise Unsupported('place field on %r' % type(b))
        if k == 'unary' and e['op'] == '*':
            v = self.eval(e['e'], env)
            if isinstance(v, Guard):
                c = v.lock.cell
                return (lambda: c.v), (lambda x: setattr(c, 'v', x))
            if isinstance(v, Cell):
                return (lambda: v.v), (lambda x: setattr(v, 'v', x))
            if isinstance(v, PtrCell):
                c = v.cell
                return (lambda: c.v), (lambda x: setattr(c, 'v', x))
            if isinstance(v, CellRef):
                return (lambda: v.d[v.k]), (lambda x: v.d.__setitem__(v.k, x))
            return self.place(e['e'], env)
        if k == 'index':
            b = self.deref(self.eval(e['base'], env))
            i = self.eval(e['index'], env)
            if isinstance(b, Buffer):
                return (lambda: self.buf_get(b, i)), (lambda v: self.buf_set(b, i, v))
            if isinstance(b, VVec):
                idx = self.concrete_index(i, len(b.items))
                if idx >= len(b.items):
                    raise Panic('index out of bounds')
                return (lambda: b.items[idx]), (lambda v: b.items.__setitem__(idx, v))
        if k == 'paren':
            return self.place(e['e'], env)
        raise Unsupported('place %s line %s' % (k, e.get('line')))

    def concrete_index(self, i, n):
        i = self.deref(i)
        if isinstance(i, int) and not isinstance(i, bool):
            return i
        if isinstance(i, IntLit):
            return i.v
        i = self.tobv(i)
        s = z3.simplify(i.t)
        if z3.is_bv_value(s):
            return s.as_long()
        c = self.concretize(i.t)
        if c is not None:
            return c
        for k in range(n):
            if self.branch(i.t == k):
                return k
        return n        # out of range: caller decides (panic / None)

    def e_assign(self, e, env):
        v = self.eval(e['r'], env)
        if e['l']['k'] == 'wild' or (e['l']['k'] == 'path' and e['l']['path']['s'] == '_'):
            return UNIT
        if e['l']['k'] == 'tuple':
            vv = self.deref(v)
            for le, x in zip(e['l']['elems'], vv):
                get, put = self.place(le, env)
                put(x)
            return UNIT
        get, put = self.place(e['l'], env)
        cur = self.deref(get())
        if isinstance(cur, BV) and not isinstance(self.deref(v), BV):
            v = self.tobv(v, cur.bits)
        put(v)
        return UNIT

    def e_field(self, e, env):
        b = self.deref(self.eval(e['base'], env))
        m = e['member']
        if isinstance(b, (Struct, EnumV)) and isinstance(b.f, dict):
            if m not in b.f:
                raise Unsupported('no field %s on %s line %s' % (m, getattr(b, 'name', b), e.get('line')))
            return b.f[m]
        if isinstance(b, tuple):
            return b[int(m)]
        raise Unsupported('field %s on %r line %s' % (m, type(b), e.get('line')))

    def e_ref(self, e, env):
        inner = e['e']
        if e.get('mut'):
            if inner['k'] == 'unary' and inner['op'] == '*':
                v = self.eval(inner['e'], env)
                if isinstance(v, Guard):
                    return PtrCell(v.lock.cell)
                if isinstance(v, PtrCell):
                    return v
                if isinstance(v, Cell):
                    return PtrCell(v)
                return v
            if inner['k'] == 'path' and len(inner['path']['segs']) == 1:
                c = self.lookup(inner['path']['segs'][0]['id'], env)
                if c is not None:
                    if isinstance(c.v, (BV, IntLit, bool, EnumV, tuple)) or c.v is None or z3.is_expr(c.v):
                        return PtrCell(c)
                    return c.v
        return self.eval(inner, env)

    def e_paren(self, e, env):
        return self.eval(e['e'], env)

    def e_block(self, e, env):
        try:
            return self.block(e, env)
        except Break as b:
            if e.get('label') and b.label == e['label']:
                return b.v
            raise

    def e_await(self, e, env):
        return self.eval(e['e'], env)

    def e_return(self, e, env):
        raise Return(self.eval(e['e'], env) if e['e'] else UNIT)

    def e_break(self, e, env):
        raise Break(e.get('label'), self.eval(e['e'], env) if e.get('e') else None)

    def e_continue(self, e, env):
        raise Continue(e.get('label'))

    def cond(self, c, env):
        if c['k'] == 'let_cond':
            v = self.eval(c['e'], env)
            ok = self.match(c['pat'], v, env)
            if not ok:
                # a guard produced by the scrutinee and not bound is released
                self.release_temp(v)
            return ok
        if c['k'] == 'binary' and c['op'] == '&&' and (c['l']['k'] == 'let_cond' or c['r']['k'] == 'let_cond'
                                                       or self.has_let(c['l']) or self.has_let(c['r'])):
            return self.cond(c['l'], env) and self.cond(c['r'], env)
        return self.branch(self.eval(c, env))

    def has_let(self, c):
        return c['k'] == 'let_cond' or (c['k'] == 'binary' and c['op'] == '&&' and (self.has_let(c['l']) or self.has_let(c['r'])))

    def release_temp(self, v):
        v2 = v
        if isinstance(v2, EnumV) and isinstance(v2.f, list) and v2.f and isinstance(v2.f[0], Guard):
            self.release_guard(v2.f[0])
        elif isinstance(v2, Guard):
            self.release_guard(v2)

    def ite(self, c, a, b):
        a, b = self.deref(a), self.deref(b)
        if isinstance(a, CharV) and isinstance(b, CharV):
            return CharV(z3.If(c, a.t, b.t))
        if isinstance(a, (BV, IntLit)) and isinstance(b, (BV, IntLit)):
            a, b = self.coerce(a, b)
            return BV(z3.If(c, a.t, b.t), a.bits, a.signed)
        if (isinstance(a, bool) or z3.is_bool(a)) and (isinstance(b, bool) or z3.is_bool(b)):
            return z3.If(c, a if not isinstance(a, bool) else z3.BoolVal(a), b if not isinstance(b, bool) else z3.BoolVal(b))
        raise NeedFork()

    def e_if(self, e, env):
        if self.pure and e['cond']['k'] != 'let_cond' and not self.has_let(e['cond']) and e['else']:
            c = self.eval(e['cond'], env)
            if not isinstance(c, bool):
                c = z3.simplify(c)
                if not (z3.is_true(c) or z3.is_false(c)):
                    return self.ite(c, self.block(e['then'], env), self.eval(e['else'], env))
        env.append({})
        try:
            taken = self.cond(e['cond'], env)
            if taken:
                return self.block(e['then'], env)
        except Panic:
            self.scope_exit(env[-1], panicking=True)
            raise
        finally:
            sc = env.pop()
            self.scope_exit(sc, panicking=False)
        return self.eval(e['else'], env) if e['else'] else UNIT

    def e_match(self, e, env):
        v = self.eval(e['e'], env)
        for arm in e['arms']:
            env.append({})
            try:
                if self.match(arm['pat'], v, env):
                    if arm['guard'] is None or self.branch(self.eval(arm['guard'], env)):
                        return self.eval(arm['body'], env)
            except Panic:
                self.scope_exit(env[-1], panicking=True)
                raise
            finally:
                sc = env.pop()
                self.scope_exit(sc, panicking=False)
        raise Unsupported('no arm matched line %s: %r' % (e.get('line'), v))

    def loop_body(self, body, env, label):
        try:
            self.block(body, env)
            return True
        except Continue as c:
            if c.label in (None, label):
                return True
            raise

    def loop_bound(self, e):
        return getattr(self, 'maxloop', MAXLOOP)

    def e_while(self, e, env):
        n = 0
        try:
            while True:
                env.append({})
                try:
                    if not self.cond(e['cond'], env):
                        break
                    n += 1
                    if n > self.loop_bound(e):
                        raise Incomplete('unwinding bound: while line %s' % e.get('line'))
                    self.loop_body(e['body'], env, e.get('label'))
                finally:
                    sc = env.pop()
                    self.scope_exit(sc, panicking=False)
        except Break as b:
            if b.label not in (None, e.get('label')):
                raise
        return UNIT

    def e_loop(self, e, env):
        n = 0
        try:
            while True:
                n += 1
                if n > self.loop_bound(e):
                    raise Incomplete('unwinding bound: loop line %s' % e.get('line'))
                self.loop_body(e['body'], env, e.get('label'))
        except Break as b:
            if b.label not in (None, e.get('label')):
                raise
            return b.v if b.v is not None else UNIT

    def to_iter(self, v):
        v = self.deref(v)
        if isinstance(v, IterV):
            return v.items
        if isinstance(v, VVec):
            return list(v.items)
        if isinstance(v, VMap):
            return [(self.unkey(k), val) for k, val in v.d.items()]
        if isinstance(v, VSet):
            return [self.unkey(k) for k in v.items]
        if isinstance(v, RangeV):
            a = self.concrete_index(v.a, 0) if v.a is not None else 0
            bt = self.tobv(v.b)
            b = self.concretize(bt.t)
            if b is None:
                raise Unsupported('symbolic range end')
            return [BV(z3.BitVecVal(i, bt.bits), bt.bits) for i in range(a, b + (1 if v.closed else 0))]
        if isinstance(v, Buffer):
            return self.buf_items(v)
        if isinstance(v, VStr):
            return [CharV(c) for c in v.c]
        if isinstance(v, EnumV) and v.enum == 'Option':
            return list(v.f)
        raise Unsupported('iterate %r' % type(v))

    def unkey(self, k):
        if isinstance(k, str):
            return PStr(k)
        if isinstance(k, int) and not isinstance(k, bool):
            return BV(bv64(k), 64)
        return k

    def e_for(self, e, env):
        try:
            for item in self.to_iter(self.eval(e['iter'], env)):
                env.append({})
                try:
                    self.bind(e['pat'], item, env)
                    self.loop_body(e['body'], env, e.get('label'))
                finally:
                    sc = env.pop()
                    self.scope_exit(sc, panicking=False)
        except Break as b:
            if b.label not in (None, e.get('label')):
                raise
        return UNIT

    def e_try(self, e, env):
        v = self.deref(self.eval(e['e'], env))
        if not isinstance(v, EnumV):
            raise Unsupported('? on %r line %s' % (type(v), e.get('line')))
        if v.variant in ('Some', 'Ok'):
            return v.f[0]
        raise Return(v)

    def e_tuple(self, e, env):
        if not e['elems']:
            return UNIT
        return tuple(self.eval(x, env) for x in e['elems'])

    def e_array(self, e, env):
        return VVec([self.eval(x, env) for x in e['elems']])

    def e_repeat(self, e, env):
        v = self.eval(e['e'], env)
        n = self.concrete_index(self.eval(e['len'], env), 0)
        if isinstance(v, IntLit):
            return Buffer([Bytes([v.v] * n)])
        raise Unsupported('repeat')

    def e_range(self, e, env):
        return RangeV(self.eval(e['start'], env) if e['start'] else None,
                      self.eval(e['end'], env) if e['end'] else None, e['closed'])

    def e_cast(self, e, env):
        v = self.deref(self.eval(e['e'], env))
        ty = e['ty']
        if ty in INT_TYPES:
            bits = INT_TYPES[ty]
            sg = ty in SIGNED_TYPES
            if isinstance(v, IntLit):
                return BV(z3.BitVecVal(v.v, bits), bits, sg)
            if isinstance(v, bool):
                return BV(z3.BitVecVal(1 if v else 0, bits), bits, sg)
            if isinstance(v, int):
                return BV(z3.BitVecVal(v, bits), bits, sg)
            if isinstance(v, BV):
                if v.bits == bits:
                    return BV(v.t, bits, sg)
                if v.bits < bits:
                    return BV(z3.SignExt(bits - v.bits, v.t) if v.signed else z3.ZeroExt(bits - v.bits, v.t), bits, sg)
                return BV(z3.Extract(bits - 1, 0, v.t), bits, sg)
            if isinstance(v, CharV):
                return IntU(v.t, bits)
            if isinstance(v, IntU):
                return IntU(v.t, bits)
        if ty == 'char' and isinstance(v, (IntLit,)):
            return CharV(v.v)
        raise Unsupported('cast to %s of %r line %s' % (ty, v, e.get('line')))

    def e_struct(self, e, env):
        segs = e['path']['segs']
        name = segs[-1]['id']
        if name == 'Self':
            name = self.tys[-1]
        fields = {f['name']: self.eval(f['e'], env) for f in e['fields']}
        if e.get('rest'):
            base = self.deref(self.eval(e['rest'], env))
            for k, v in base.f.items():
                fields.setdefault(k, v)
        if len(segs) > 1 and segs[-2]['id'] in self.p.enums:
            en = segs[-2]['id']
            self.fix_field_types(self.variant_fields(en, name), fields)
            return EnumV(en, name, fields)
        st = self.p.structs.get(name)
        if st:
            self.fix_field_types(st['fields'], fields)
        return Struct(name, fields)

    def variant_fields(self, en, name):
        for v in self.p.enums[en]['variants']:
            if v['name'] == name:
                return v['fields']
        return []

    def fix_field_types(self, decls, fields):
        for fd in decls:
            if fd['ty'] in INT_TYPES and fd['name'] in fields and isinstance(self.deref(fields[fd['name']]), IntLit):
                fields[fd['name']] = self.tobv(fields[fd['name']], INT_TYPES[fd['ty']])

    def e_closure(self, e, env):
        return Closure(e['params'], e['body'], list(env), list(self.tys))

    def e_index(self, e, env):
        b = self.deref(self.eval(e['base'], env))
        i = self.eval(e['index'], env)
        if isinstance(b, Buffer):
            if isinstance(i, RangeV):
                return self.buf_slice(b, i)
            return self.buf_get(b, i)
        if isinstance(b, VVec):
            if isinstance(i, RangeV):
                a = self.concrete_index(i.a, len(b.items) + 1) if i.a is not None else 0
                z = (self.concrete_index(i.b, len(b.items) + 1) + (1 if i.closed else 0)) if i.b is not None else len(b.items)
                if a > z or z > len(b.items):
                    raise Panic('slice index out of range line %s' % e.get('line'))
                return VVec(b.items[a:z])
            idx = self.concrete_index(i, len(b.items))
            if idx >= len(b.items):
                raise Panic('index out of bounds line %s' % e.get('line'))
            return b.items[idx]
        if isinstance(b, VStr):
            if isinstance(i, RangeV):
                a = self.concrete_index(i.a, 0) if i.a is not None else 0
                z = self.concrete_index(i.b, 0) if i.b is not None else len(b.c)
                return VStr(b.c[a:z])
        if isinstance(b, list):
            return b[self.concrete_index(i, len(b))]
        if isinstance(b, VMap):
            k = self.mapkey(i)
            if k not in b.d:
                raise Panic('map index: key not found')
            return b.d[k]
        raise Unsupported('index on %r line %s' % (type(b), e.get('line')))

    def mapkey(self, k):
        k = self.deref(k)
        if isinstance(k, PStr):
            return k.v
        if isinstance(k, IntLit):
            return k.v
        if isinstance(k, BV):
            c = self.concretize(k.t)
            if c is None:
                # small-domain key: fork over its feasible values (bounded)
                for _ in range(8):
                    v = self.memo(lambda: self._model_value(k.t))
                    if v is None:
                        raise PathEnd()
                    if self.branch(k.t == v):
                        return v
                raise Unsupported('symbolic map key with more than 8 feasible values')
            return c
        if isinstance(k, VStr):
            cs = []
            for ch in k.c:
                c = self.concretize(ch)
                if c is None:
                    raise Unsupported('symbolic string map key')
                cs.append(chr(c))
            return ''.join(cs)
        return k

    def e_macro(self, e, env):
        from . import lib
        return lib.macro(self, e, env)

    def eval_src(self, src, env):
        """evaluate a tiny expression given as token text: identifiers, field/method chains without args."""
        toks = src.replace(' ', '')
        if toks.isdigit():
            return IntLit(int(toks))
        m = re.fullmatch(r'([A-Za-z_][A-Za-z_0-9]*)((?:\.[A-Za-z_][A-Za-z_0-9]*(?:\(\))?)*)', toks)
        if not m:
            raise Unsupported('eval_src ' + src)
        c = self.lookup(m.group(1), env)
        if c is None:
            v = self.e_path({'path': {'segs': [{'id': m.group(1)}], 's': m.group(1)}}, env)
        else:
            v = c.v
        for part in [p for p in m.group(2).split('.') if p]:
            if part.endswith('()'):
                v = self.method(v, part[:-2], [], {'line': 0, 'turbofish': None}, env)
            else:
                v = self.deref(v).f[part]
        return v

    def e_call(self, e, env):
        f = e['func']
        args = [self.eval(a, env) for a in e['args']]
        if f['k'] == 'path':
            s = f['path']['s']
            segs = f['path']['segs']
            last = segs[-1]['id']
            if s == 'Some':
                return Some(args[0])
            if s == 'Ok':
                return Ok(args[0])
            if s == 'Err':
                return Err(args[0])
            if len(segs) == 1:
                c = self.lookup(last, env)
                if c is not None and isinstance(c.v, (Closure, tuple)):
                    return self.call_closure(c.v, args)
                if last in self.fn_models:
                    return self.fn_models[last](self, args, e)
                if last in self.p.fns:
                    return self.call_fn(self.p.fns[last], args)
                if last in self.p.structs:      # tuple struct constructor
                    return Struct(last, {str(i): a for i, a in enumerate(args)})
            else:
                ty = segs[-2]['id']
                if ty == 'Self':
                    ty = self.tys[-1]
                key = ty + '::' + last
                if s in self.fn_models:
                    return self.fn_models[s](self, args, e)
                if key in self.fn_models:
                    return self.fn_models[key](self, args, e)
                if (ty, last) in self.overrides and not ((ty, last) in self.p.methods and self.p.methods[(ty, last)]['sig']['params'] and self.p.methods[(ty, last)]['sig']['params'][0].get('self')):
                    return self.overrides[(ty, last)](self, None, args, e)
                if (ty, last) in self.p.methods:
                    m = self.p.methods[(ty, last)]
                    if m['sig']['params'] and m['sig']['params'][0].get('self'):
                        recv = self.deref(args[0])
                        if (ty, last) in self.overrides:
                            return self.overrides[(ty, last)](self, recv, args[1:], e)
                        return self.call_fn(m, args[1:], recv)
                    return self.call_fn(m, args)
                if ty in self.p.enums:
                    return EnumV(ty, last, args)
                if last in self.p.fns and ty not in self.p.structs:   # module-qualified free fn (config::foo)
                    return self.call_fn(self.p.fns[last], args)
            raise Unsupported('call %s line %s' % (s, e.get('line')))
        fv = self.eval(f, env)
        if isinstance(fv, (Closure, tuple)):
            return self.call_closure(fv, args)
        raise Unsupported('call expr line %s' % e.get('line'))

    def e_mcall(self, e, env):
        m = e['method']
        if m == 'copy_from_slice':
            src = self.deref(self.eval(e['args'][0], env))
            r = e['recv']
            if r['k'] == 'index':
                b = self.deref(self.eval(r['base'], env))
                rng = self.eval(r['index'], env)
                self.buf_write_range(b, rng, src)
                return UNIT
            b = self.deref(self.eval(r, env))
            if not self.valid(self.buf_len(b).t == self.buf_len(src).t):
                if self.branch(self.buf_len(b).t != self.buf_len(src).t):
                    raise Panic('copy_from_slice length mismatch line %s' % e.get('line'))
            b.chunks = list(src.chunks)
            return UNIT
        if m == 'take' and e['recv']['k'] in ('path', 'field') and not e['args']:
            get, put = self.place(e['recv'], env)
            v = get()
            dv = self.deref(v)
            if isinstance(dv, EnumV) and dv.enum == 'Option':
                if isinstance(v, (Guard, PtrCell, CellRef)):
                    pass
                else:
                    put(NONE)
                    return dv
        recv = self.eval(e['recv'], env)
        args = [self.eval(a, env) for a in e['args']]
        return self.method(recv, m, args, e, env)

    def method(self, recv, m, args, e, env):
        base = self.deref(recv)
        if isinstance(base, Struct):
            if (base.name, m) in self.overrides:
                return self.overrides[(base.name, m)](self, base, args, e)
            if (base.name, m) in self.p.methods:
                return self.call_fn(self.p.methods[(base.name, m)], args, base)
        if isinstance(base, EnumV) and (base.enum, m) in self.p.methods:
            return self.call_fn(self.p.methods[(base.enum, m)], args, base)
        mm = self.method_models
        for v in (recv, base):
            fn = mm.get((type(v).__name__, m))
            if fn:
                return fn(self, v, args, e)
            if isinstance(v, Struct):
                fn = mm.get(('Struct:' + v.name, m))
                if fn:
                    return fn(self, v, args, e)
        fn = mm.get(('*', m))
        if fn:
            return fn(self, recv, args, e)
        raise Unsupported('method %s on %s line %s' % (m, type(base).__name__ + (':' + base.name if isinstance(base, Struct) else ''), e.get('line')))

    # ------------------------------------------------------------------ buffers
    def buf_len(self, b):
        t = bv64(0)
        for c in b.chunks:
            t = t + clen(c)
        return BV(z3.simplify(t), 64)

    def buf_items(self, b):
        out = []
        for c in b.chunks:
            if isinstance(c, Bytes):
                for x in c.b:
                    out.append(self.byte_val(x))
            else:
                n = self.concretize(clen(c))
                if n is None:
                    # symbolic but short (e.g. a piece of an 8-byte probe): fork over its feasible lengths
                    for _ in range(70):
                        v = self.memo(lambda: self._model_value(clen(c)))
                        if v is None:
                            raise PathEnd()
                        if self.branch(clen(c) == v):
                            n = v
                            break
                if n is None or n > 64:
                    raise Unsupported('iterate long/symbolic chunk')
                if isinstance(c, Zeros):
                    out.extend(BV(z3.BitVecVal(0, 8), 8) for _ in range(n))
                else:
                    out.extend(self.symbv('ob', 8) for _ in range(n))
        return out

    def byte_val(self, x):
        if isinstance(x, int):
            return BV(z3.BitVecVal(x, 8), 8)
        if isinstance(x, BV):
            return x
        if isinstance(x, tuple) and x[0] == 'lenbyte':
            return BV(z3.Extract(7, 0, z3.LShR(x[1], 8 * x[2])), 8)
        return self.symbv('opaque_byte', 8)

    def locate(self, b, pos):
        """find (chunk index, concrete delta or None) for byte position pos. Forks if needed."""
        pos = self.tobv(pos).t
        start = bv64(0)
        for i, c in enumerate(b.chunks):
            ln = clen(c)
            d = z3.simplify(pos - start)
            if isinstance(c, Bytes) and z3.is_bv_value(d):
                if d.as_long() < len(c.b):
                    return i, d.as_long()
                start = z3.simplify(start + ln)
                continue
            if isinstance(c, Bytes):
                dc = self.concretize(pos - start)
                if dc is not None:
                    if dc < len(c.b):
                        return i, dc
                    start = z3.simplify(start + ln)
                    continue
            if self.valid(pos == start) and not self.valid(ln == 0):
                return i, 0
            inside = z3.And(z3.UGE(pos, start), z3.ULT(pos - start, ln))
            if self.sat(inside):
                if self.branch(pos == start):
                    if self.branch(ln != 0):
                        return i, 0
                elif self.branch(inside):
                    if isinstance(c, Bytes):
                        for k in range(1, len(c.b)):
                            if self.branch(pos - start == k):
                                return i, k
                    return i, None
            start = z3.simplify(start + ln)
        return len(b.chunks), 0

    def buf_get(self, b, i):
        ci, d = self.locate(b, i)
        if ci >= len(b.chunks):
            raise Panic('buffer index out of range')
        c = b.chunks[ci]
        if isinstance(c, Bytes) and d is not None:
            return self.byte_val(c.b[d])
        if isinstance(c, Zeros):
            return BV(z3.BitVecVal(0, 8), 8)
        return self.symbv('byte', 8)

    def buf_set(self, b, i, v):
        ci, d = self.locate(b, i)
        if ci >= len(b.chunks):
            raise Panic('buffer index out of range')
        c = b.chunks[ci]
        if isinstance(c, Bytes) and d is not None:
            v = self.tobv(v, 8)
            s = z3.simplify(v.t)
            c.b[d] = s.as_long() if z3.is_bv_value(s) else v
            return
        raise Unsupported('buf_set into non-bytes chunk')

    def buf_write_range(self, b, rng, src):
        """b[rng].copy_from_slice(src): concrete sub-range of a Bytes chunk, or a prefix b[..k] of any buffer"""
        if rng.a is None and not (len(b.chunks) == 1 and isinstance(b.chunks[0], Bytes) and all(isinstance(c, Bytes) for c in src.chunks)):
            k = self.tobv(rng.b).t if rng.b is not None else self.buf_len(b).t
            total = self.buf_len(b).t
            if not self.valid(z3.ULE(k, total)) and self.branch(z3.UGT(k, total)):
                raise Panic('range end index out of range for slice')
            sl = self.buf_len(src).t
            if not self.valid(sl == k) and self.branch(sl != k):
                raise Panic('copy_from_slice length mismatch')
            rest = self.buf_slice(b, RangeV(BV(k, 64), None, False)) if not self.valid(k == total) else Buffer([])
            b.chunks = list(src.chunks) + list(rest.chunks)
            return
        a = self.concrete_index(rng.a, 1 << 20) if rng.a is not None else 0
        flat = []
        for c in src.chunks:
            if not isinstance(c, Bytes):
                raise Unsupported('copy_from_slice of non-bytes into subslice')
            flat.extend(c.b)
        if rng.b is not None:
            z = self.tobv(rng.b).t
            want = z3.simplify(z - a)
            if not self.valid(want == len(flat)):
                if self.branch(want != len(flat)):
                    raise Panic('copy_from_slice length mismatch')
        if len(b.chunks) == 1 and isinstance(b.chunks[0], Bytes):
            if a + len(flat) > len(b.chunks[0].b):
                raise Panic('range end index %d out of range for slice of length %d' % (a + len(flat), len(b.chunks[0].b)))
            b.chunks[0].b[a:a + len(flat)] = flat
            return
        raise Unsupported('copy_from_slice target shape')

    def buf_slice(self, b, r):
        total = self.buf_len(b)
        a = self.tobv(r.a).t if r.a is not None else bv64(0)
        z = self.tobv(r.b).t if r.b is not None else total.t
        if r.closed:
            z = z + 1
        bad = z3.Or(z3.UGT(a, z), z3.UGT(z, total.t))
        if not self.valid(z3.Not(bad)):
            if self.branch(bad):
                raise Panic('slice out of range')
        out = []
        start = bv64(0)
        for c in b.chunks:
            ln = clen(c)
            end = z3.simplify(start + ln)
            if self.valid(ln == 0):
                start = end
                continue
            if self.valid(z3.Or(z3.ULE(end, a), z3.UGE(start, z))):
                start = end
                continue
            if self.valid(z3.And(z3.UGE(start, a), z3.ULE(end, z))):
                out.append(c)
                start = end
                continue
            lo = z3.simplify(z3.If(z3.UGT(a, start), a - start, bv64(0)))
            hi = z3.simplify(z3.If(z3.ULT(z, end), z - start, ln))
            if isinstance(c, Bytes):
                lo_c = self.concretize(lo)
                hi_c = self.concretize(hi)
                if lo_c is not None and hi_c is not None:
                    if hi_c > lo_c:
                        out.append(Bytes(c.b[lo_c:hi_c]))
                else:
                    if self.branch(z3.Or(z3.ULE(end, a), z3.UGE(start, z))):
                        start = end
                        continue
                    if self.branch(z3.And(z3.UGE(start, a), z3.ULE(end, z))):
                        out.append(c)
                        start = end
                        continue
                    out.append(Unknown(z3.simplify(hi - lo)))
            elif isinstance(c, Opaque):
                if self.branch(z3.Or(z3.ULE(end, a), z3.UGE(start, z))):
                    start = end
                    continue
                out.append(Opaque(c.uid, z3.simplify(c.start + lo), z3.simplify(hi - lo)))
            elif isinstance(c, Zeros):
                if self.branch(z3.Or(z3.ULE(end, a), z3.UGE(start, z))):
                    start = end
                    continue
                out.append(Zeros(z3.simplify(hi - lo)))
            else:
                out.append(Unknown(z3.simplify(hi - lo)))
            start = end
        return Buffer(out)


def src_hash(path, line, end_line=None):
    try:
        lines = open(path, 'rb').read().split(b'\n')
        seg = b'\n'.join(lines[line - 1:(end_line or line + 40)])
        return hashlib.sha256(seg).hexdigest()[:16]
    except Exception:
        return None
