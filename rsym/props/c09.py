from . import crash_props


def main(tier, seed):
    return crash_props.run('C09', tier, seed)


replay_entry = crash_props.replay_entry_for('C09')
