"""C18 — cluster metadata keeps an immutable, contiguous segment history."""
import json
import os
import random
import subprocess

from .. import runner
from ..runner import Report, VERIF, BUILD

PROP = 'C18'
DRV = ('rsym.drivers.meta', 'mk')
FILES = ['distributed-walrus/src/metadata.rs']


def build_native(profile):
    env = dict(os.environ, CARGO_NET_OFFLINE='true', CARGO_TARGET_DIR=os.path.join(BUILD, 'dshim'))
    flag = '--release' if profile == 'release' else ''
    r = runner.sh('cargo build %s --offline --bin meta' % flag, cwd=os.path.join(VERIF, 'native', 'dshim'), env=env)
    if r.returncode != 0:
        return None, r.stderr[-1500:]
    return os.path.join(BUILD, 'dshim', 'release' if profile == 'release' else 'debug', 'meta'), None


def native(binp, seqs):
    inp = '\n'.join(json.dumps({'cmds': s}) for s in seqs) + '\n'
    r = subprocess.run([binp], input=inp, capture_output=True, text=True)
    return [json.loads(l) for l in r.stdout.splitlines()]


def judge(steps):
    """C18 invariants on the natively observed states; returns text or None"""
    prev = {}
    for i, st in enumerate(steps):
        if st['result'].get('panic'):
            return 'step %d: apply panicked' % i
        if st['state'].get('poisoned'):
            return 'step %d: state lock poisoned' % i
        for name, t in st['state'].items():
            if t is None:
                continue
            cur = t['current_segment']
            if sorted(int(k) for k in t['segment_leaders']) != list(range(1, cur + 1)):
                return 'step %d topic %s: leaders %s vs current %d' % (i, name, sorted(t['segment_leaders']), cur)
            if sorted(int(k) for k in t['sealed_segments']) != list(range(1, cur)):
                return 'step %d topic %s: sealed %s vs current %d' % (i, name, sorted(t['sealed_segments']), cur)
            if t['segment_leaders'][str(cur)] != t['leader_node']:
                return 'step %d topic %s: open segment leader != topic leader' % (i, name)
            if sum(t['sealed_segments'].values()) % 2 ** 64 != t['last_sealed_entry_offset']:
                return 'step %d topic %s: offset %d != sum of sealed counts' % (i, name, t['last_sealed_entry_offset'])
            for k, (c, l) in prev.get(name, {}).items():
                if t['sealed_segments'].get(k) != c or t['segment_leaders'].get(k) != l:
                    return 'step %d topic %s: sealed segment %s changed' % (i, name, k)
            prev[name] = {k: (v, t['segment_leaders'][k]) for k, v in t['sealed_segments'].items()}
    return None


def random_seq(rng, n):
    out = []
    for _ in range(n):
        k = rng.choice(['create', 'rollover', 'rollover', 'upsert', 'garbage'])
        out.append(dict(kind=k, name=rng.choice('ab'), leader=rng.randint(1, 3), count=rng.choice([0, 1, 5, 2 ** 32, rng.randrange(2 ** 62)])))
    return out


def main(tier, seed):
    rep = Report(PROP, tier, seed)
    rep.bounds = dict(sequence_length='every command sequence of length <= %d (all kinds incl. undecodable bytes), plus length %d within the time budget' % ((3, 4) if tier == 'quick' else (4, 6)),
                      topics=['a', 'b'], node_ids='1..3', sealed_segment_entry_count='all u64')
    rep.assumptions = ['bincode::deserialize is a total function bytes -> Result<MetadataCmd>: undecodable bytes give Err and never panic (real bincode cannot be built offline: assumed, not shown)',
                       'HashMap/RwLock as sequential containers; release-profile integer semantics (wrapping); the debug-profile overflow obligation is explored separately']
    rng = random.Random(seed)
    bins = {}
    for prof in ('release', 'dev'):
        b, err = build_native(prof)
        if not b:
            rep.inconclusive.append('native harness (%s) does not build: %s' % (prof, err))
            return rep.finish()
        bins[prof] = b
    docs = runner.parse_sources(FILES)
    # 1. differential validation on concrete sequences
    seqs = []
    for _ in range(30 if tier == 'quick' else 200):
        sq = random_seq(rng, rng.randint(1, 6))
        if sq not in seqs:          # duplicates would be counted as two paths of one job
            seqs.append(sq)
    nat = native(bins['release'], seqs)
    agg = runner.explore_jobs(DRV[0], DRV[1], docs, [dict(len=len(s), cmds=s) for s in seqs], {'seed': seed}, 4, 200)
    rep.absorb(agg)
    for s, nres in zip(seqs, nat):
        rs = [r for r in agg['results'] if r['job'].get('cmds') == s]
        rep.replays_run += 1
        if len(rs) != 1:
            rep.inconclusive.append('MODEL-MISMATCH: concrete sequence %s: interpreter gave %d paths' % (s, len(rs)))
            continue
        nv = judge(nres['steps'])
        if rs[0]['verdict'] != 'ok' or nv:
            if rs[0]['verdict'] != 'ok' and nv:
                rep.replays_agreed += 1
                path = runner.write_replay(PROP, 'diff_%d' % rep.replays_run, dict(property=PROP, driver='meta', profile='release', cmds=s, detail=rs[0].get('detail')))
                rep.violation(path, '%s after commands %s (native: %s)' % (rs[0].get('detail'), s, nv))
            else:
                rep.inconclusive.append('MODEL-MISMATCH: concrete sequence %s: interpreter says %s, native says %s' % (s, rs[0].get('detail'), nv))
            continue
        fin = {k: v for k, v in nres['steps'][-1]['state'].items() if v is not None}
        if fin != rs[0]['final']:
            rep.inconclusive.append('MODEL-MISMATCH: final state differs for %s: native %s interpreter %s' % (s, fin, rs[0]['final']))
        else:
            rep.replays_agreed += 1
    if rep.inconclusive or rep.violations:
        return rep.finish()
    # 2. exploration, release semantics (invariants) and debug obligations (overflow)
    lens = [1, 2, 3] + ([4] if tier == 'quick' else [4, 5, 6])
    findings = runner.load_findings(PROP)
    for oc in (False, True):
        budget = (40 if oc else 90) if tier == 'quick' else (400 if oc else 1500)
        agg = runner.explore_jobs(DRV[0], DRV[1], docs, [dict(len=n) for n in (lens if not oc else lens[:3])], {'seed': seed, 'overflow_checks': oc},
                                  min(12, runner.ncpu()), budget)
        rep.absorb(agg)
        res = agg['results']
        if not oc:
            rep.states += len(res)
            rep.extra['path_classes_by_length'] = {str(n): sum(1 for r in res if r['job']['len'] == n) for n in lens}
        cex = [r for r in res if r['verdict'] == 'cex']
        done = 0
        reported = set()
        for r in sorted(cex, key=lambda r: len(r['cmds'])):
            if done >= 6:
                break
            prof = 'dev' if r['kind'] == 'overflow-panic' else 'release'
            nres = native(bins[prof], [r['cmds']])[0]
            rep.replays_run += 1
            done += 1
            v = judge(nres['steps'])
            if not v:
                rep.inconclusive.append('MODEL-MISMATCH: counterexample %s (%s) does not reproduce natively (%s profile)' % (r['cmds'], r['detail'], prof))
                continue
            rep.replays_agreed += 1
            fm = [f for f in findings if f.get('status') == 'known' and f['signature']['kind'] == r['kind']]
            if fm:
                if fm[0]['id'] not in reported:
                    reported.add(fm[0]['id'])
                    rep.known.append('%s (%s)' % (fm[0]['summary'], fm[0]['id']))
                continue
            path = runner.write_replay(PROP, '%s_len%d_%d' % (r['kind'], len(r['cmds']), done), dict(property=PROP, driver='meta', profile=prof, cmds=r['cmds'], detail=r['detail']))
            rep.violation(path, '%s after commands %s (native %s profile: %s)' % (r['detail'], r['cmds'], prof, v))
        if not oc:
            oks = [r for r in res if r['verdict'] == 'ok']
            # vacuity: a rollover on an existing topic and a duplicate create were reached
            if not any(r['kinds'].count('rollover') >= 1 and 'create' in r['kinds'] for r in oks):
                rep.inconclusive.append('vacuity: no explored sequence rolled a topic over')
            for r in rng.sample(oks, min(10 if tier == 'quick' else 80, len(oks))):
                nres = native(bins['release'], [r['cmds']])[0]
                rep.replays_run += 1
                v = judge(nres['steps'])
                if v:
                    rep.inconclusive.append('MODEL-MISMATCH: passing sequence %s violates natively: %s' % (r['cmds'], v))
                else:
                    rep.replays_agreed += 1
            rep.samples = [dict(commands=r['cmds'], verdict=r['verdict'], detail=r.get('detail')) for r in cex[:2] + oks[:3] + oks[-2:]]
    return rep.finish()


def replay_entry(path):
    s = json.load(open(path))
    b, err = build_native(s.get('profile', 'release'))
    nres = native(b, [s['cmds']])[0]
    print(json.dumps(nres))
    if judge(nres['steps']):
        print('VIOLATION property=%s replay=%s' % (PROP, path))
        return 1
    return 0
