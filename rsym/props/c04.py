"""C04 — rejected or failed appends leave no trace; batches are all-or-nothing (rejection causes; sequential)."""
import json

from .. import enginecheck

QUICK = ['a,r,n,n', 'r,a,n', 'a,L,n,n', 'a,A2L,n', 'a,A2r,b', 'A2001,n', 'a,A11G,b', 'a,r,a,b,c', 'a,F2,n,n', 'a,F2,a,n,n,n', 'F2,a,X,n,n,n']
THOROUGH = ['a,A2L,n,a,n', 'F3,a,X,b,b', 'a,F2,A2,b,b', 'F2,a,a,X,B,c', 'a,r,X,n,n', 'a,A2L,X,b', 'a,a,A3r,b,b', 'A2,r,b,n', 'a,L,a,A2,b', 'a,A2r,a,X,B,c', 'r:u,a,a:u,b,b:u']
DIFF = [
    dict(skel='a,r,a,n,n,n,c', sizes=[10, 2 ** 30 + 5, 20], budgets=[]),
    dict(skel='a,A2,b,c', sizes=[100, 200, 300], budgets=[10 ** 6]),
    dict(skel='a,L,n,n', sizes=[5, 6], budgets=[]),
]
enginecheck.KINDS['C04'] = {'wrong-entry', 'no-progress', 'phantom', 'read-error', 'panic', 'reopen-failed', 'count'}


def main(tier, seed):
    skels = QUICK + (THOROUGH if tier == 'thorough' else [])
    jobs = []
    for s in skels:
        extra = dict(sizecap=32 * 2 ** 20, cfg=dict(eager_div=6)) if ('X' in s or 'F' in s) else {}
        if 'F' in s:
            # failed batches that stay inside one block (sizes <= 4 KiB): cheap, explored first
            jobs.insert(0, dict(skel=s, backend='fd', consistency='StrictlyAtOnce', sizecap=4096, cfg=dict(eager_div=6)))
            if tier == 'quick' and 'X' in s:
                continue
        jobs.append(dict(skel=s, backend='fd', consistency='StrictlyAtOnce', **extra))
    jobs += [dict(skel=s, backend='mmap', consistency='StrictlyAtOnce') for s in skels[:5]]
    # topic names around the largest one whose header still fits (216 fits, 217..224 serialise to 256 bytes, do not)
    for tl in ([216, 217, 224] if tier == 'quick' else [215, 216, 217, 220, 224, 225, 232]):
        for b in ('fd', 'mmap'):
            jobs.insert(0, dict(skel='a,A2:T,a:T,n,n:T,n:T,n:T,n:T', topic_len=tl, backend=b, consistency='StrictlyAtOnce', sizecap=4096))
    bounds = dict(histories='skeletons %s: r = oversized append (payload in (2^30-256, 2^30+2^20]), L = long topic name (240 bytes; also 216/217/224 around the header-fit boundary), A<n>r = batch whose last entry is oversized, A<n>L = batch on the long topic, A2001 = 2001 entries, A11G = 11 entries with > 10 GiB in total' % skels,
                  payload_size='accepted entries 0 .. 2^30-256', faults='F<n> = batch of n entries with one injected io_uring write-completion failure at a solver-chosen position (the data reached the file, the completion reports an error); file-creation and flush faults are not explored yet',
                  wall_budget_s=240 if tier == 'quick' else 2400)
    return enginecheck.run('C04', tier, seed, jobs, enginecheck.KINDS['C04'], bounds['wall_budget_s'], DIFF, bounds,
                           cfg=dict(oracles=['C01', 'C15']))


def replay_entry(path):
    from .. import replay as rp
    s = json.load(open(path))
    obs, e = rp.run_script(s)
    print(json.dumps(obs))
    if enginecheck.judge(s, obs, enginecheck.KINDS['C04']):
        print('VIOLATION property=C04 replay=%s' % path)
        return 1
    return 0
