"""C13 — instances with different namespaces are isolated (driver `reclaim` with two instances in one process)."""
from . import c12


def main(tier, seed):
    return c12.main(tier, seed, prop='C13', two=True)


replay_entry = c12.replay_entry
