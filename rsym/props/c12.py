"""C12 — file reclamation never removes entries that are still unconsumed (driver `reclaim`)."""
import json
import random

from .. import engine, envmodel, replay, runner
from ..runner import Report

PROP = 'C12'
DRV = ('rsym.drivers.reclaim', 'mk')


def build_script(r, two=False):
    ops = [dict(op='open', inst='1', key='ns1')]
    wit = r.get('witness') or {}
    for o in r['ops']:
        o = json.loads(json.dumps(o))
        if isinstance(o.get('budget'), str):
            o['budget'] = wit.get(o['budget'], 1)
        if isinstance(o.get('start_offset'), str):
            o['start_offset'] = wit.get(o['start_offset'], 0)
        ops.append(o)
    # let the background reclaimer run (1 ms ticks, deletion every 1000 ticks), then restart and drain every topic
    ops.append(dict(op='sleep_ms', ms=4000))
    ops.append(dict(op='list_dir'))
    ops.append(dict(op='restart_process'))
    ops.append(dict(op='open', inst='1', key='ns1'))
    if two:
        ops.append(dict(op='open', inst='2', key='ns2'))
    topics = sorted({(o.get('inst', '1'), o['topic']) for o in r['ops'] if o['op'] == 'append'})
    for inst, t in topics:
        for _ in range(sum(1 for o in r['ops'] if o['op'] == 'append' and o['topic'] == t and o.get('inst', '1') == inst) + 1):
            ops.append(dict(op='read_next', inst=inst, topic=t, checkpoint=True, drain=True))
    return dict(config=dict(backend='fd', consistency='StrictlyAtOnce', fsync='Milliseconds', fsync_ms=1), ops=ops, property=PROP)


def judge(script, obs):
    """entries appended and not consumed before the restart must all be delivered, in order, after it"""
    by_i = {o['i']: o for o in obs}
    stored, consumed, drained = {}, {}, {}
    for i, op in enumerate(script['ops']):
        o = by_i.get(i)
        if o is None or o.get('crash') or o.get('panic') is not None:
            return 'op %d (%s) did not complete: %s' % (i, op['op'], o)
        key = (op.get('inst', '1'), op.get('topic'))
        if op['op'] == 'append' and o.get('ok'):
            stored.setdefault(key, []).append(op['entries'][0]['uid'])
        elif op['op'] in ('read_next', 'batch_read') and 'entries' in o:
            if op.get('drain'):
                drained.setdefault(key, []).extend(e.get('uid') for e in o['entries'])
            elif op.get('checkpoint', True):
                consumed[key] = consumed.get(key, 0) + len(o['entries'])
    for key, uids in stored.items():
        exp = uids[consumed.get(key, 0):]
        got = drained.get(key, [])
        if got != exp:
            return 'topic %s of instance %s: after the reclaimer ran and the instance was reopened the consumer got %s, expected %s' % (key[1], key[0], got, exp)
    return None


def main(tier, seed, prop=PROP, two=False):
    rep = Report(prop, tier, seed)
    runner.clear_replays(prop)
    L = 2 if tier == 'quick' else 3
    rep.bounds = dict(prefix='concrete history that fully allocates one 1000 MiB file with three blocks of two topics and seals them (490 MiB, 100 B, 480 MiB, 20 MiB appends)',
                      suffix='every sequence of <= %d operations from {read_next, peek, consuming batch read, peeking batch read, offset-addressed read (symbolic offset)} on the topics, byte budgets symbolic; plus a second family: three small entries in a file that is not fully allocated, followed by every sequence of <= %d operations from {read_next, peek, offset read, clean restart}' % (L, L),
                      reclaimer='deletion channel observed in the model; natively the background thread runs with 1 ms ticks')
    rep.assumptions = list(envmodel.ASSUMPTIONS) + ['a file sent to the deletion channel is removed by the background thread at its next cleanup tick']
    binp, err = replay.build()
    if not binp:
        rep.inconclusive.append('native replayer does not build: ' + err[-500:])
        return rep.finish()
    docs = runner.parse_sources(engine.CORE_FILES)
    rng = random.Random(seed)
    if two:
        # data-directory clause: two constructions in one process with WALRUS_DATA_DIR changed in between
        ddocs = runner.parse_sources(['src/wal/config.rs', 'src/wal/paths.rs'])
        agg0 = runner.explore_jobs('rsym.drivers.nskey', 'mk', ddocs, [dict(len=0, ctor='env_twice', via=v) for v in ('for_key', 'default')], dict(seed=seed), 1, 120)
        rep.absorb(agg0)
        rep.states += len(agg0['results'])
        rep.bounds['data_dirs'] = 'two constructions (keyed and default constructor) with WALRUS_DATA_DIR=/data1 then /data2 in one process'
        script = dict(property=prop, config=dict(backend='fd'), ops=[
            dict(op='open', inst='1', subdir='d1', via_env=True, key='tenant'), dict(op='open', inst='2', subdir='d2', via_env=True, key='tenant'),
            dict(op='append', inst='1', topic='t', entries=[dict(uid=0, len=10)]), dict(op='append', inst='2', topic='t', entries=[dict(uid=1, len=10)]),
            dict(op='read_next', inst='2', topic='t', checkpoint=True), dict(op='read_next', inst='2', topic='t', checkpoint=True), dict(op='list_dir')])
        obs, e = replay.run_script(script)
        rep.replays_run += 1
        files = obs[-1].get('files', []) if obs and not e else None
        nat_bad = files is None or not any(f.startswith('d2/tenant/') and not f.endswith('/') for f in files) or [en.get('uid') for en in obs[4].get('entries', [])] != [1] or obs[5].get('entries')
        mod_bad = [r for r in agg0['results'] if r['verdict'] == 'cex']
        if not agg0['results']:
            rep.inconclusive.append('data-directory clause: the interpreter produced no result (%s)' % (agg0.get('errors') or agg0.get('incomplete')))
        elif bool(mod_bad) != bool(nat_bad):
            rep.inconclusive.append('MODEL-MISMATCH: data-directory clause: interpreter %s, native listing %s' % ([r.get('detail') for r in mod_bad], json.dumps(obs)[:400]))
        else:
            rep.replays_agreed += 1
            if mod_bad:
                path = runner.write_replay(prop, 'datadir_env_twice', script)
                rep.violation(path, '%s; natively the second instance reads %s and d2/tenant holds %s' % (mod_bad[0]['detail'], obs[4].get('entries'), [f for f in files if f.startswith('d2/')]))
    # targeted fixed suffixes first (cheap): consuming reads followed by one non-consuming call of every kind
    fixed = []
    for last in ('oA', 'oB', 'PA', 'pA'):
        for pre in ([], ['nA'], ['nA', 'nA'], ['nA', 'nB'], ['nB', 'nA', 'nA']):
            fixed.append(dict(len=len(pre) + 1, suffix=pre + [last]))
    jobs = ([] if two else fixed) + [dict(len=n, prefix='small') for n in range(1, L + 1)] + [dict(len=n, instances=2 if two else 1) for n in range(1, L + 1)]
    if two:
        # the second instance walks through its three sealed blocks: fixed suffixes of consuming reads (+ peeks)
        jobs = [dict(len=n, instances=2) for n in (1, 2)]
        for k in (4, 6, 7, 8):
            jobs.append(dict(len=k, instances=2, suffix=['nC'] * k))
        jobs.append(dict(len=8, instances=2, suffix=['nC', 'PC', 'nC', 'nC', 'PC', 'nC', 'nC', 'nC']))
    agg = runner.explore_jobs(DRV[0], DRV[1], docs, jobs, dict(seed=seed), min(12, runner.ncpu()), 240 if tier == 'quick' else 2000)
    rep.absorb(agg)
    res = agg['results']
    rep.states += len(res)
    cex = [r for r in res if r['verdict'] == 'cex']
    oks = [r for r in res if r['verdict'] == 'ok']
    rep.extra['path_classes'] = dict(ok=len(oks), counterexample=len(cex))
    findings = [f for f in runner.load_findings(prop) if f.get('status') == 'known']
    seen = set()
    reported = set()
    for r in sorted(cex, key=lambda r: len(r['suffix'])):
        key = tuple(r['suffix'])
        if key in seen or len(seen) >= (3 if tier == 'quick' else 8):
            continue
        seen.add(key)
        fm = [f for f in findings if f['signature'].get('kind') == r['kind']]
        if fm and all(f['id'] in reported for f in fm):
            continue
        script = build_script(r, two)
        obs, e = replay.run_script(script, timeout=900)
        rep.replays_run += 1
        if e:
            rep.inconclusive.append(e)
            break
        v = judge(script, obs)
        if not v:
            rep.inconclusive.append('MODEL-MISMATCH: counterexample suffix %s does not reproduce natively (files after wait: %s)' % (r['suffix'], [o.get('files') for o in obs if o.get('op') == 'list_dir'][:1]))
            continue
        rep.replays_agreed += 1
        if fm:
            reported.add(fm[0]['id'])
            rep.known.append('%s (%s)' % (fm[0]['summary'], fm[0]['id']))
            continue
        path = runner.write_replay(prop, 'premature_%s' % '_'.join(r['suffix']), script)
        rep.violation(path, '%s; native: %s' % (r['detail'], v))
    for r in rng.sample(oks, min(1 if tier == 'quick' else 4, len(oks))):
        script = build_script(r, two)
        obs, e = replay.run_script(script, timeout=900)
        rep.replays_run += 1
        v = judge(script, obs) if not e else e
        if v:
            rep.inconclusive.append('MODEL-MISMATCH: passing suffix %s violates natively: %s' % (r['suffix'], v))
        else:
            rep.replays_agreed += 1
    rep.samples = [dict(suffix=r['suffix'], verdict=r['verdict'], detail=r.get('detail'), witness=r.get('witness'), file0_counters=r.get('file0_counters')) for r in cex[:3] + oks[:4]]
    return rep.finish()


def replay_entry(path):
    s = json.load(open(path))
    obs, e = replay.run_script(s, timeout=900)
    print(json.dumps(obs)[:3000])
    if judge(s, obs):
        print('VIOLATION property=%s replay=%s' % (s.get('property', PROP), path))
        return 1
    return 0
