"""C01 / C03 / C15: checks built on the `stream` driver."""
from .. import enginecheck

QUICK = {
    'C01': ['a,a,b', 'a,a,n,n', 'a,n,a,B', 'A2,b,n', 'a,a:u,n:u,b', 'a,a,a,b'],
    'C03': ['a,a,b', 'a,b,b', 'A2,b', 'a,a,a,b'],
    'C15': ['a,a,b', 'a,n,c,a,c', 'A2,n,c', 'a,a,a,b'],
}
THOROUGH_EXTRA = ['a,a,a,n,b', 'a,a,b,a,b', 'A3,b,b', 'a,A2,a,b,n', 'a,a,a,a,b', 'a,n,a,a,B,n', 'a,a:u,a,b:u,b', 'a,b,a,b,a,b',
                  'A2,A2,b,b', 'a,a,a,b,b,b']
DIFF = [
    dict(skel='a,a,a,n,b,c', sizes=[100, 200, 300], budgets=[10000]),
    dict(skel='a,a,b,n,c', sizes=[9 * 2 ** 20, 2 * 2 ** 20], budgets=[20 * 2 ** 20]),
    dict(skel='A3,b,c', sizes=[5 * 2 ** 20, 5 * 2 ** 20, 1000], budgets=[2 ** 40], backend='mmap'),
    dict(skel='a,p,n,n,c', sizes=[77], budgets=[]),
    dict(skel='a,a,n,R,n,c', sizes=[10, 20], budgets=[]),
]


def jobs_for(prop, tier):
    skels = list(QUICK[prop])
    if tier == 'thorough':
        skels += [s for s in THOROUGH_EXTRA if s not in skels]
    jobs = []
    for s in skels:
        jobs.append(dict(skel=s, backend='fd', consistency='StrictlyAtOnce'))
    # configurations: mmap back end and AtLeastOnce on the smaller skeletons
    for s in skels[:3] if tier == 'quick' else skels[:8]:
        jobs.append(dict(skel=s, backend='mmap', consistency='StrictlyAtOnce'))
    for s in skels[:2] if tier == 'quick' else skels[:6]:
        jobs.append(dict(skel=s, backend='fd', consistency='AtLeastOnce', persist_every=3))
    if prop == 'C15':
        # failed operations interleaved, and counts rebuilt after a restart (sizes <= 32 MiB keep the recovery scan tractable)
        for s in ['a,r,c,n,c', 'r,c,a,c', 'a,L,c', 'L:u,a,c'] + (['a,A2,r,b,c', 'a,r,a,n,c'] if tier == 'thorough' else []):
            jobs.append(dict(skel=s, backend='fd', consistency='StrictlyAtOnce'))
        for s in ['a,n,a,X,c', 'a,a,n,X,c,n,c', 'A2,n,X,c'] + (['a,n,a,a,X,c,b,c', 'a,a:u,n,X,c,c:u', 'a,b,a,X,c'] if tier == 'thorough' else []):
            jobs.append(dict(skel=s, backend='fd', consistency='StrictlyAtOnce', sizecap=32 * 2 ** 20, cfg=dict(eager_div=6)))
    return jobs


def run(prop, tier, seed):
    jobs = jobs_for(prop, tier)
    bounds = dict(
        histories='skeletons (operation kinds in order): %s; within a skeleton every payload size and byte budget is symbolic' % sorted({j['skel'] for j in jobs}),
        payload_size='0 .. 2^30-256 bytes (every accepted size; larger ones are rejected and belong to C04)',
        byte_budget='0 .. 2^64-1', topics='t (+ bystander u)', configurations='FD/io_uring and mmap back ends; StrictlyAtOnce and AtLeastOnce{persist_every=3}',
        loop_unrolling='every loop bounded at 48 iterations with an unwinding obligation (paths that need more are counted incomplete)',
        wall_budget_s=240 if tier == 'quick' else 2400)
    return enginecheck.run(prop, tier, seed, jobs, enginecheck.KINDS[prop], bounds['wall_budget_s'], DIFF if tier == 'thorough' else DIFF[:3], bounds,
                           cfg=dict(oracles=[prop]))
