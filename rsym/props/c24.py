"""C24 — client protocol stays frame-synchronised and round-trips payloads."""
import json
import os
import random
import struct
import subprocess

from .. import runner
from ..drivers.frames import frame_judge
from ..runner import Report, VERIF, BUILD

PROP = 'C24'
DRV = ('rsym.drivers.frames', 'mk')
FILES = ['distributed-walrus/src/client.rs']


def build_native():
    env = dict(os.environ, CARGO_NET_OFFLINE='true', CARGO_TARGET_DIR=os.path.join(BUILD, 'dshim'))
    r = runner.sh('cargo build --release --offline --bin frames', cwd=os.path.join(VERIF, 'native', 'dshim'), env=env)
    if r.returncode != 0:
        return None, r.stderr[-2500:]
    return os.path.join(BUILD, 'dshim', 'release', 'frames'), None


def native(binp, streams, segments=None):
    inp = '\n'.join(json.dumps({'stream': s, 'segments': (segments[i] if segments else [])}) for i, s in enumerate(streams)) + '\n'
    r = subprocess.run([binp], input=inp, capture_output=True, text=True)
    return [json.loads(l) for l in r.stdout.splitlines()]


def fr(b):
    return list(struct.pack('<I', len(b)) + b)


def prefix_reads_of(nres, stream):
    """length-prefix reads in the native trace: a 4-byte read that is not the body of the preceding frame"""
    out = []
    expect_body = False
    for pos, n in nres['reads']:
        if pos + n > len(stream):
            break              # this read hit EOF and failed
        if expect_body:
            expect_body = False
            continue
        out.append(pos)
        if pos + 4 <= len(stream):
            ln = int.from_bytes(bytes(stream[pos:pos + 4]), 'little')
            expect_body = 0 < ln <= 64 * 1024
    return out


def roundtrip_judge(stream, nres):
    """oracle (c) on a concrete well-formed exchange: every GET answer OK <p> equals a payload that was PUT (FIFO per topic)"""
    # parse client frames
    p = 0
    frames = []
    while p + 4 <= len(stream):
        ln = int.from_bytes(bytes(stream[p:p + 4]), 'little')
        if ln == 0 or ln > 64 * 1024 or p + 4 + ln > len(stream):
            return None        # only judged on fully well-formed streams
        frames.append(bytes(stream[p + 4:p + 4 + ln]))
        p += 4 + ln
    out = bytes(nres['output'])
    q = 0
    resp = []
    while q + 4 <= len(out):
        ln = int.from_bytes(out[q:q + 4], 'little')
        resp.append(out[q + 4:q + 4 + ln])
        q += 4 + ln
    if len(resp) != len(frames):
        return '%d responses for %d frames' % (len(resp), len(frames))
    queues = {}
    known = set()
    for f, r in zip(frames, resp):
        try:
            text = f.decode('utf-8')
        except UnicodeDecodeError:
            continue
        if any(ord(c) > 127 for c in text):
            return None
        line = text.rstrip('\t\n\x0b\x0c\r ')
        parts = line.split(' ', 2)
        if parts[0] == 'REGISTER' and len(parts) >= 2 and r == b'OK':
            known.add(parts[1] if len(parts) == 2 else parts[1])
            queues.setdefault(parts[1], [])
        elif parts[0] == 'PUT' and len(parts) == 3 and r == b'OK':
            queues.setdefault(parts[1], []).append(parts[2].encode())
        elif parts[0] == 'GET' and len(parts) >= 2 and r.startswith(b'OK '):
            qd = queues.get(parts[1], [])
            if not qd:
                return 'GET returned a payload although nothing was PUT: %r' % r
            exp = qd.pop(0)
            if r[3:] != exp:
                return 'GET returned %r, the payload PUT was %r' % (r[3:], exp)
        elif parts[0] == 'GET' and len(parts) >= 2 and r == b'EMPTY':
            if queues.get(parts[1]):
                return 'GET answered EMPTY although a payload is pending'
    return None


def judge_native(stream, nres):
    v = frame_judge(stream, prefix_reads_of(nres, stream), nres['output'])
    return v or roundtrip_judge(stream, nres)


def main(tier, seed):
    rep = Report(PROP, tier, seed)
    nmax = 12 if tier == 'quick' else 16
    rep.bounds = dict(free_streams='every byte stream of length 0..%d (all bytes symbolic)' % nmax,
                      shaped_streams='REGISTER t, then a PUT-sized frame and a GET-sized frame with symbolic bodies (lengths 5..12), incl. malformed ones',
                      payload_roundtrip='decided for ASCII frame bodies; non-ASCII bodies are judged for framing only')
    rep.assumptions = ['TcpStream = finite byte stream; read_exact consumes or fails with UnexpectedEof; write_all records bytes',
                       'String::from_utf8 on all-ASCII bytes is the identity; on other bytes it nondeterministically succeeds or fails (content then not judged)',
                       'str::trim_end strips ASCII white space (U+0009..U+000D, U+0020); splitn(3, \' \'), match on the verb, format! as documented',
                       'NodeController is a stub: REGISTER creates a FIFO queue, PUT/GET/STATE on an unknown topic fail; the same stub is used by the native harness']
    binp, err = build_native()
    if not binp:
        rep.inconclusive.append('native shim harness does not build: ' + err)
        return rep.finish()
    docs = runner.parse_sources(FILES)
    rng = random.Random(seed)
    # 1. differential validation on concrete streams
    base = [fr(b'REGISTER t') + fr(b'PUT t hello  ') + fr(b'GET t') + fr(b'GET t'), fr(b'PUT x y'), fr(b'') + fr(b'BOGUS') + fr(b'\xff\xfe') + fr(b'METRICS'),
            fr(b'REGISTER a b') + fr(b'PUT a  two  words \n') + fr(b'GET a') + fr(b'STATE a') + [9, 0, 0, 0, 71],
            list(struct.pack('<I', 70000)) + fr(b'GET t')]
    for _ in range(6 if tier == 'quick' else 40):
        s = []
        for _ in range(rng.randint(1, 4)):
            body = bytes(rng.choice(b'PUTGE REGISTRtxy\n \x80') for _ in range(rng.randint(0, 12)))
            s += fr(body) if rng.random() < 0.8 else list(struct.pack('<I', rng.choice([0, 65537, 2 ** 31])))
        base.append(s)
    nat = native(binp, base)
    agg = runner.explore_jobs(DRV[0], DRV[1], docs, [dict(n=len(s), stream=s) for s in base], {'seed': seed, 'witness': False}, 4, 200)
    rep.absorb(agg)
    for s, nres in zip(base, nat):
        rs = [r for r in agg['results'] if r['job'].get('stream') == s]
        rep.replays_run += 1
        nv = judge_native(s, nres)
        if not rs:
            rep.inconclusive.append('MODEL-MISMATCH: concrete stream %s not executed by the interpreter' % s)
            continue
        # non-ASCII bodies fork on from_utf8 validity: one of the interpreter paths must match the native trace
        ok = [r for r in rs if r['prefix_reads'] == prefix_reads_of(nres, s) and (r['verdict'] == 'cex' or r['out_len'] == len(nres['output']))]
        if not ok:
            rep.inconclusive.append('MODEL-MISMATCH: stream %s: native reads %s out %d, interpreter %s' % (s, prefix_reads_of(nres, s), len(nres['output']), [(r['prefix_reads'], r.get('out_len'), r['verdict']) for r in rs]))
            continue
        rep.replays_agreed += 1
        if nv:
            path = runner.write_replay(PROP, 'diff_%d' % rep.replays_run, dict(property=PROP, driver='frames', stream=s, detail=nv))
            rep.violation(path, '%s (stream %s)' % (nv, s))
    if rep.inconclusive or rep.violations:
        return rep.finish()
    # 2. symbolic exploration: free streams + shaped exchanges
    reg = list(b'REGISTER t')
    jobs = [dict(n=n) for n in range(0, nmax + 1)]
    for lp in ([7, 9] if tier == 'quick' else [6, 7, 8, 9, 10, 12]):
        jobs.append(dict(n=0, shape=[reg, dict(sym=lp, lead=list(b'PUT t ')), list(b'GET t')]))
        jobs.append(dict(n=0, shape=[reg, dict(sym=lp, lead=list(b'PUT ')), list(b'GET t')]))
    for lg in ([5] if tier == 'quick' else [5, 6, 7]):
        jobs.append(dict(n=0, shape=[reg, list(b'PUT t ab'), dict(sym=lg)]))
    jobs.append(dict(n=0, shape=[dict(sym=8), list(b'GET t')]))
    # a long PUT line (more than 256 bytes) with arbitrary payload bytes
    # (quick: only a window of 22 bytes around offset 256 is symbolic, the rest of the line is 'a'; thorough: windows
    #  around 64/128/512/1024 too and one fully symbolic 270-byte line)
    def longput(total, win_lo):
        return dict(n=0, shape=[reg, dict(sym=total, lead=list(b'PUT tt ') + [97] * (win_lo - 7)), list(b'GET tt')])
    jobs.insert(0, longput(270, 248))
    if tier != 'quick':
        for total, lo in ((80, 58), (140, 120), (530, 504), (1040, 1016)):
            jobs.append(longput(total, lo))
        jobs.append(dict(n=0, shape=[reg, dict(sym=270, lead=list(b'PUT tt ')), list(b'GET tt')]))
    agg = runner.explore_jobs(DRV[0], DRV[1], docs, jobs, {'seed': seed}, min(12, runner.ncpu()), 200 if tier == 'quick' else 2000)
    rep.absorb(agg)
    res = agg['results']
    rep.states += len(res)
    cex = [r for r in res if r['verdict'] == 'cex']
    oks = [r for r in res if r['verdict'] == 'ok']
    rep.extra['path_classes'] = dict(ok=len(oks), counterexample=len(cex), with_put=sum(1 for r in oks if r.get('puts')), with_get_payload=sum(1 for r in oks if r.get('gets')))
    if not any(r.get('gets') for r in oks):
        rep.inconclusive.append('vacuity: no explored path performed a PUT followed by a GET that returned it')
    seen = set()
    for r in sorted(cex, key=lambda r: len(r['stream'] or [])):
        key = r['detail'][:40]
        if key in seen or len(seen) >= 8 or not r['stream']:
            continue
        seen.add(key)
        nres = native(binp, [r['stream']], [r.get('segments') or []])[0]
        rep.replays_run += 1
        nv = judge_native(r['stream'], nres)
        if not nv and nres.get('result', '').startswith('panic'):
            nv = 'the connection task panicked natively'
        if not nv:
            rep.inconclusive.append('MODEL-MISMATCH: counterexample stream %s (%s) does not reproduce natively: %s' % (r['stream'], r['detail'], json.dumps(nres)[:300]))
            continue
        rep.replays_agreed += 1
        path = runner.write_replay(PROP, 'cex_%d' % len(seen), dict(property=PROP, driver='frames', stream=r['stream'], segments=r.get('segments') or [], detail=r['detail']))
        rep.violation(path, '%s: stream %s (native: %s)' % (r['detail'], r['stream'], nv))
    ws = [r for r in oks if r.get('stream') is not None]
    pick = rng.sample(ws, min(12 if tier == 'quick' else 100, len(ws))) + [r for r in ws if r.get('gets')][:6]
    if pick:
        for r, nres in zip(pick, native(binp, [r['stream'] for r in pick])):
            rep.replays_run += 1
            nv = judge_native(r['stream'], nres)
            if nv and 'nonascii' not in r.get('flags', []):
                rep.inconclusive.append('MODEL-MISMATCH: passing path class witness %s violates natively: %s' % (r['stream'], nv))
            else:
                rep.replays_agreed += 1
    rep.samples = [dict(stream=r['stream'], verdict=r['verdict'], detail=r.get('detail'), server_prefix_reads=r['prefix_reads'], responses=r['responses']) for r in cex[:2] + [r for r in oks if r.get('gets')][:2] + oks[:3]]
    return rep.finish()


def replay_entry(path):
    s = json.load(open(path))
    binp, err = build_native()
    nres = native(binp, [s['stream']], [s.get('segments') or []])[0]
    print(json.dumps(nres))
    if judge_native(s['stream'], nres):
        print('VIOLATION property=%s replay=%s' % (PROP, path))
        return 1
    return 0
