"""C06 — restarting an instance is invisible to producers and consumers (driver `stream` with reopen events)."""
import json

from .. import enginecheck

QUICK = ['a,a:u,X,n,n:u', 'a,X,n', 'a,a,X,n,n', 'a,n,X,n', 'A2,X,b,c']
THOROUGH = ['a,a,n,X,b,c', 'a,a,n,X,n,X,n', 'a,a,a,X,b,b', 'a,n,a,X,n,n', 'a,a:u,X,n,n:u', 'a,X,a,X,B,c', 'a,a,b,X,c,a,n', 'a,a,R,n,n,c', 'A3,n,X,b,c']
DIFF = [
    dict(skel='a,a,a,X,B,c', sizes=[100, 15 * 2 ** 20, 100], budgets=[]),
    dict(skel='a,a,n,X,n,c,X,c', sizes=[10, 20], budgets=[]),
    dict(skel='a,a,a,n,X,b,c', sizes=[9 * 2 ** 20, 3 * 2 ** 20, 50], budgets=[2 ** 30]),
    dict(skel='A3,n,n,X,B,c', sizes=[5 * 2 ** 20, 6 * 2 ** 20, 7], budgets=[], backend='mmap'),
    dict(skel='a,a,X,a,X,B,c', sizes=[10485504, 0, 5], budgets=[]),
]


def main(tier, seed):
    skels = QUICK + (THOROUGH if tier == 'thorough' else [])
    small = dict(sizecap=32 * 2 ** 20, cfg=dict(eager_div=6))
    # an empty poll at the tail before the restart (the provisional tail position must not rewind the cursor);
    # two restarts with small entries (no rotation): tail cursors persisted by block id must survive id reassignment
    tiny = dict(sizecap=4096, cfg=dict(eager_div=6))
    jobs = [dict(skel=s, backend='fd', consistency='StrictlyAtOnce', **tiny) for s in (['a,n,n,X,n,c', 'a,n,X,a,a,n,n,X,c,n', 'a,a,n,X,a,n,n,X,b,c', 'a,a,b,b,X,b,c'] + (['a,X,a,n,X,a,n,n,X,n,c'] if tier == 'thorough' else []))]
    # systematic: every history 'a' + (1..k further operations from {a, n, b, X} with at least one restart) + final drain
    # (unbounded batch read, count), small entries; k = 3 in the quick tier, 4 in the thorough tier
    import itertools
    enum = []
    for k in range(1, (3 if tier == 'quick' else 4) + 1):
        for tail in itertools.product('anbX', repeat=k):
            if 'X' in tail:
                enum.append(','.join(('a',) + tail + ('B', 'c')))
    have = {j['skel'] for j in jobs}
    jobs += [dict(skel=s, backend='fd', consistency='StrictlyAtOnce', **tiny) for s in enum if s not in have]
    jobs += [dict(skel=s, backend='fd', consistency='StrictlyAtOnce', **small) for s in skels]
    jobs += [dict(skel=s, backend='mmap', consistency='StrictlyAtOnce', **small) for s in skels[:2]]
    # one large entry (every accepted size) around a restart, both back ends
    jobs += [dict(skel=s, backend=b, consistency='StrictlyAtOnce', cfg=dict(eager_div=0)) for s in ['a,X,n,c'] for b in ('fd', 'mmap')]
    bounds = dict(histories='every history a + (<= %d operations from {append, read_next, batch read, clean restart} with >= 1 restart) + drain, entries <= 4 KiB; and skeletons %s (X = clean shutdown and reopen in a fresh process, R = reopen in the same process); sizes and budgets symbolic' % (3 if tier == 'quick' else 4, skels),
                  payload_size='0 .. 32 MiB in multi-operation histories (block spans 1..4 units); every accepted size 0 .. 2^30-256 in the single-append history a,X,n,c', reopens='<= 2 per history', files='<= 3', clock='monotone between runs (clock regression is not modelled yet)',
                  loop_unrolling='128 iterations (the recovery scan visits up to 100 units per file)', wall_budget_s=600 if tier == 'quick' else 3000)
    return enginecheck.run('C06', tier, seed, jobs, enginecheck.KINDS['C06'], bounds['wall_budget_s'], DIFF, bounds,
                           cfg=dict(oracles=['C01', 'C03', 'C15'], maxloop=128))


def replay_entry(path):
    from .. import replay as rp
    s = json.load(open(path))
    obs, e = rp.run_script(s)
    print(json.dumps(obs))
    if enginecheck.judge(s, obs, enginecheck.KINDS['C06']):
        print('VIOLATION property=C06 replay=%s' % path)
        return 1
    return 0
