"""C16 — FD/io_uring and mmap back ends behave identically (two-run differential inside one symbolic path)."""
import json
import random

from .. import engine, enginecheck, envmodel, replay, runner
from ..runner import Report

PROP = 'C16'
QUICK = ['a,a,b', 'a,n,a,B', 'A2,b,n', 'a,r,n,n', 'a,A2L,n', 'a,a,n,n,c']
THOROUGH = ['a,a,a,b', 'a,X,n,c', 'a,a,X,b,c', 'A3,b,b', 'a,A2r,b', 'a,L,n', 'a,n,X,n']


def norm(obs):
    out = []
    for o in obs:
        o = dict(o)
        o.pop('msg', None)
        o.pop('stderr', None)
        if o.get('op') == 'list_dir':
            continue
        out.append(o)
    return out


def native_pair(script):
    res = {}
    for b in ('fd', 'mmap'):
        s = json.loads(json.dumps(script))
        s['config']['backend'] = b
        obs, e = replay.run_script(s)
        if e:
            return None, e
        res[b] = norm(obs)
    return res, None


def main(tier, seed):
    rep = Report(PROP, tier, seed)
    runner.clear_replays(PROP)
    skels = QUICK + (THOROUGH if tier == 'thorough' else [])
    rep.bounds = dict(histories='skeletons %s, each interpreted twice (FD/io_uring, mmap) with shared symbolic sizes/budgets' % skels,
                      payload_size='0 .. 2^30-256 (<= 32 MiB in histories with a restart); rejected sizes up to 2^30+2^20', byte_budget='0 .. 2^64-1')
    rep.assumptions = list(envmodel.ASSUMPTIONS) + ['the real kernel io_uring and mmap are exercised only in replays; otherwise their semantics are the models above']
    binp, err = replay.build()
    if not binp:
        rep.inconclusive.append('native replayer does not build: ' + err[-500:])
        return rep.finish()
    docs = runner.parse_sources(engine.CORE_FILES)
    rng = random.Random(seed)
    jobs = []
    for s in skels:
        extra = dict(sizecap=32 * 2 ** 20, cfg=dict(eager_div=6)) if 'X' in s else {}
        jobs.append(dict(skel=s, **extra))
    # topic names around the largest one whose header still fits (rkyv: 32 + roundup8(len) <= 254): 216 fits, 217..224 do not
    for tl in ([216, 217, 224] if tier == 'quick' else [215, 216, 217, 220, 224, 225, 232]):
        jobs.insert(0, dict(skel='a,A2:T,a:T,n,n:T,n:T,n:T,n:T', topic_len=tl, sizecap=4096))
    agg = runner.explore_jobs('rsym.drivers.dual', 'mk', docs, jobs, dict(seed=seed), min(12, runner.ncpu()), 240 if tier == 'quick' else 2400)
    rep.absorb(agg)
    res = agg['results']
    rep.states += len(res)
    cex = [r for r in res if r['verdict'] == 'cex' and r.get('witness')]
    oks = [r for r in res if r['verdict'] == 'ok']
    rep.extra['path_pairs'] = dict(equal=len(oks), different=len(cex))
    findings = [f for f in runner.load_findings(PROP) if f.get('status') == 'known']
    groups = {}
    for r in cex:
        key = (r['job']['skel'], r['op_index'], r['detail'][:30])
        tot = sum(v for k, v in r['witness'].items() if k.startswith('size'))
        if key not in groups or tot < groups[key][0]:
            groups[key] = (tot, r)
    reported = set()
    n = 0
    for tot, r in sorted(groups.values(), key=lambda t: t[0]):
        if n >= 16:
            break
        script = enginecheck.concretise(r['ops'], r['witness'], dict(backend='fd', consistency='StrictlyAtOnce'))
        fm = [f for f in findings if enginecheck.finding_matches(f, dict(kind='panic'), dict(script, config=dict(backend='mmap')))]
        if fm and all(f['id'] in reported for f in fm):
            continue
        n += 1
        pair, e = native_pair(script)
        rep.replays_run += 1
        if e:
            rep.inconclusive.append(e)
            break
        if pair['fd'] == pair['mmap']:
            rep.inconclusive.append('MODEL-MISMATCH: solver says the back ends differ (%s) but the native traces are equal: %s witness %s' % (r['detail'], r['job'], r['witness']))
            continue
        rep.replays_agreed += 1
        first = next((i for i, (a, b) in enumerate(zip(pair['fd'], pair['mmap'])) if a != b), min(len(pair['fd']), len(pair['mmap'])))
        text = '%s at op %d of %s: fd %s / mmap %s' % (r['detail'], r['op_index'], r['job']['skel'], json.dumps(pair['fd'][first:first + 1])[:160], json.dumps(pair['mmap'][first:first + 1])[:160])
        if fm:
            reported.add(fm[0]['id'])
            rep.known.append('%s (%s)' % (fm[0]['summary'], fm[0]['id']))
            continue
        script['property'] = PROP
        path = runner.write_replay(PROP, 'diff_%s_op%d_%d' % (r['job']['skel'].replace(',', ''), r['op_index'], n), script)
        rep.violation(path, text)
    cand = [r for r in oks if r.get('witness') and sum(v for k, v in r['witness'].items() if k.startswith('size')) < 64 * 2 ** 20]
    for r in rng.sample(cand, min(5 if tier == 'quick' else 30, len(cand))):
        script = enginecheck.concretise(r['ops'], r['witness'], dict(backend='fd', consistency='StrictlyAtOnce'))
        pair, e = native_pair(script)
        rep.replays_run += 1
        if e:
            rep.inconclusive.append(e)
            break
        if pair['fd'] != pair['mmap']:
            rep.inconclusive.append('MODEL-MISMATCH: path pair judged equal differs natively: %s %s' % (r['job'], r['witness']))
        else:
            rep.replays_agreed += 1
    rep.samples = [dict(skeleton=r['job']['skel'], verdict=r['verdict'], detail=r.get('detail'), witness=r.get('witness'), fd_trace=r.get('fd'), mmap_trace=r.get('mmap')) for r in cex[:3] + oks[:4]]
    return rep.finish()


def replay_entry(path):
    s = json.load(open(path))
    pair, e = native_pair(s)
    print(json.dumps(pair)[:2000])
    if pair['fd'] != pair['mmap']:
        print('VIOLATION property=%s replay=%s' % (PROP, path))
        return 1
    return 0
