"""C05 — concurrent producers and consumers get exactly-once, ordered delivery (driver `conc`).

Two or three model threads run real API calls interpreted from source; they are serialised and switched only at the
`verif::sched_point` hook lines of the source (named points where the thread holds no lock). The schedule is a
sequence of decisions in the re-execution vector (preemption-bounded). A counterexample's schedule is imposed on real
threads by the controller of the hooks replayer (`par` op) and the same oracle judges what the real engine returned."""
import json
import random

from .. import engine, envmodel, replay, runner
from ..runner import Report

PROP = 'C05'
HOOKS = '--cfg walrus_verif'
DRV = ('rsym.drivers.conc', 'mk')
# (sequential prefix, threads)
QUICK = [('a,a', ['n', 'n']), ('a,a,a', ['n,n', 'n']), ('a', ['a', 'n']), ('a', ['n', 'a']), ('', ['a', 'a']), ('a', ['A2', 'n']),
         ('a,a', ['n', 'b']), ('a', ['A2', 'a']), ('a,a', ['b', 'b']), ('a,n', ['n', 'a,n'])]
THOROUGH = [('a,a,a', ['n', 'n', 'n']), ('a', ['a,a', 'n,n']), ('A2', ['A2', 'b']), ('a,a', ['n,n', 'n,n']), ('a', ['a', 'a', 'n'])]


def build_script(r):
    wit = r.get('witness') or {}

    def conc(o):
        o = json.loads(json.dumps(o))
        for e in o.get('entries', []):
            if isinstance(e['len'], str):
                e['len'] = wit[e['len']]
        if isinstance(o.get('budget'), str):
            o['budget'] = wit[o['budget']]
        return o
    ops = [dict(op='open')] + [conc(o) for o in r['ops']]
    names = ['T%d' % i for i in range(len(r['thread_ops']))]
    ops.append(dict(op='par', threads=[[conc(o) for o in t] for t in r['thread_ops']], schedule=[names.index(n) for n in r['schedule']]))
    n = sum(len(o.get('entries', [])) for o in ops) + sum(len(o.get('entries', [])) for t in r['thread_ops'] for o in t)
    for _ in range(n + 2):
        ops.append(dict(op='read_next', topic='t', checkpoint=True, drain=True))
    job = r['job']
    return dict(property=PROP, config=dict(backend=job.get('backend', 'fd'), consistency=job.get('consistency', 'StrictlyAtOnce'), persist_every=job.get('persist_every', 1)), ops=ops)


def judge(script, obs):
    """exactly-once / order oracle on native observations; returns (verdict list, diverged flag)"""
    acked, consumed, delivered = [], [], []
    producer = {}
    diverged = False
    for o in obs:
        op = script['ops'][o['i']]
        if o.get('panic') is not None or o.get('crash'):
            return [('panic', str(o)[:300])], diverged
        if op['op'] in ('append', 'batch_append') and o.get('ok'):
            acked += [e['uid'] for e in op['entries']]
            for e in op['entries']:
                producer[e['uid']] = 'P'
        elif op['op'] == 'read_next' and 'entries' in o:
            (delivered if op.get('drain') else consumed).append(('drain' if op.get('drain') else 'P', [e.get('uid') for e in o['entries']]))
        elif op['op'] == 'par':
            diverged = bool(o.get('schedule_diverged'))
            for ti, (tops, tres) in enumerate(zip(op['threads'], o['results'])):
                if not isinstance(tres, list):
                    return [('panic', 'thread %d: %s' % (ti, tres))], diverged
                for so, sr in zip(tops, tres):
                    if sr.get('panic') is not None:
                        return [('panic', 'T%d %s panicked' % (ti, so['op']))], diverged
                    if so['op'] in ('append', 'batch_append') and sr.get('ok'):
                        acked += [e['uid'] for e in so['entries']]
                        for e in so['entries']:
                            producer[e['uid']] = 'T%d' % ti
                    elif 'entries' in sr:
                        delivered.append(('T%d' % ti, [e.get('uid') for e in sr['entries']]))
    pre = [u for _, seq in consumed for u in seq]
    drain = [u for w, seq in delivered if w == 'drain' for u in seq]
    seqs = [(w, seq) for w, seq in delivered if w != 'drain'] + [('drain', drain)]
    alld = [u for _, seq in seqs for u in seq]
    pending = [u for u in acked if u not in pre]
    bad = []
    dup = [u for u in set(alld) if u is not None and (alld.count(u) > 1 or u in pre)]
    if dup:
        bad.append(('duplicate', 'entry %s returned by more than one consuming read: %s' % (dup[0], seqs)))
    elif None in alld:
        bad.append(('foreign', 'unknown payload returned: %s' % (seqs,)))
    elif sorted(alld) != sorted(pending):
        lost = [u for u in pending if u not in alld]
        bad.append(('lost' if lost else 'phantom', 'acknowledged %s, consumed before %s, delivered %s' % (acked, pre, seqs)))
    else:
        for w, seq in seqs:
            for pr in set(producer.get(u) for u in seq):
                sub = [u for u in seq if producer.get(u) == pr]
                if sub != sorted(sub):
                    bad.append(('order', '%s returned entries of producer %s out of order: %s' % (w, pr, seq)))
    return bad, diverged


def main(tier, seed):
    rep = Report(PROP, tier, seed)
    runner.clear_replays(PROP)
    pairs = QUICK + (THOROUGH if tier == 'thorough' else [])
    rep.bounds = dict(histories='(sequential prefix, concurrent threads) in %s: a = append, A2 = batch of 2, n = read_next, b = consuming batch read (symbolic budget); then a sequential drain' % (pairs,),
                      threads='2 (3 in two thorough histories)', payload_size='1 .. 4096 bytes; four histories with 1 .. 11 MiB (block rotation inside the concurrent phase)',
                      scheduling='threads switch only at the verif::sched_point lines of the source (read_next: after hydration, tail snapshot, writer snapshot, before the tail read, before the commit, before the persists; batch read: after the writer snapshot and where it releases the column lock for its I/O; append/batch append: entry, around the batch flag); at most %d preemptions per schedule' % 2,
                      consistency='StrictlyAtOnce; three AtLeastOnce{2} histories')
    rep.assumptions = list(envmodel.ASSUMPTIONS) + ['between two scheduling points a thread runs atomically (sequentially consistent memory); interleavings inside a lock-protected section or inside one I/O call are outside the claim',
                                                    'natively the same granularity is enforced by the replay controller, so a replayed schedule is deterministic']
    binp, err = replay.build(HOOKS)
    if not binp:
        rep.inconclusive.append('native replayer (hooks build) does not build: ' + err[-600:])
        return rep.finish()
    docs = runner.parse_sources(engine.CORE_FILES)
    rng = random.Random(seed)
    jobs = [dict(prefix=p, threads=t, backend='fd') for p, t in pairs]
    jobs += [dict(prefix='a,a', threads=['n', 'n'], backend='mmap'), dict(prefix='a,a,a', threads=['n,n', 'n'], backend='fd', consistency='AtLeastOnce', persist_every=2),
             dict(prefix='a,a', threads=['b', 'b'], backend='fd', consistency='AtLeastOnce', persist_every=2), dict(prefix='a,a', threads=['b', 'n'], backend='fd', consistency='AtLeastOnce', persist_every=2),
             dict(prefix='', threads=['a,a', 'n,n'], backend='fd'),
             # payloads up to 11 MiB: the concurrent append may seal the active block and rotate while a read is in flight
             dict(prefix='a', threads=['a', 'n'], backend='fd', sizecap=11 * 2 ** 20), dict(prefix='a,a', threads=['a', 'n,n'], backend='fd', sizecap=11 * 2 ** 20),
             dict(prefix='a', threads=['a', 'b'], backend='fd', sizecap=11 * 2 ** 20), dict(prefix='a,n', threads=['A2', 'n'], backend='fd', sizecap=11 * 2 ** 20)]
    agg = runner.explore_jobs(DRV[0], DRV[1], docs, jobs, dict(seed=seed), min(12, runner.ncpu()), 300 if tier == 'quick' else 3000)
    rep.absorb(agg)
    res = agg['results']
    rep.states += len(res)
    cex = [r for r in res if r['verdict'] == 'cex' and r.get('witness') is not None]
    oks = [r for r in res if r['verdict'] == 'ok']
    rep.extra['path_classes'] = dict(ok=len(oks), counterexample=len(cex))
    rep.extra['schedules_explored'] = len({(json.dumps(r['job'], sort_keys=True), tuple(r['schedule'])) for r in res})
    rep.extra['sched_sites_seen'] = sorted({s[1] for r in res for s in r.get('sites', []) if s[1]})
    if not any(len(set(r['schedule'])) > 1 and r['schedule'] != sorted(r['schedule']) for r in res):
        rep.inconclusive.append('vacuity: no explored schedule interleaves two threads (are the sched_point hook lines present in the source?)')
    findings = [f for f in runner.load_findings(PROP) if f.get('status') == 'known']
    reported = set()
    seen = set()
    for r in sorted(cex, key=lambda r: (len(r['schedule']), len(json.dumps(r['job'])))):
        key = (r['kind'], json.dumps(r['job'], sort_keys=True))
        if key in seen or len(seen) >= (6 if tier == 'quick' else 20):
            continue
        seen.add(key)
        fm = [f for f in findings if f['signature'].get('kind') == r['kind'] and f['signature'].get('threads') == r['job']['threads'] and f['signature'].get('prefix') == r['job'].get('prefix')]
        if fm and all(f['id'] in reported for f in fm):
            continue
        script = build_script(r)
        obs, e = replay.run_script(script, cfg_flags=HOOKS, timeout=300)
        rep.replays_run += 1
        if e:
            rep.inconclusive.append(e)
            break
        v, diverged = judge(script, obs)
        if not v:
            rep.inconclusive.append('MODEL-MISMATCH: schedule %s of %s (%s) does not reproduce natively%s: %s' % (r['schedule'], r['job'], r['detail'], ' (the native run could not follow the schedule)' if diverged else '', json.dumps(obs)[-400:]))
            continue
        rep.replays_agreed += 1
        if fm:
            reported.add(fm[0]['id'])
            rep.known.append('%s (%s)' % (fm[0]['summary'], fm[0]['id']))
            continue
        path = runner.write_replay(PROP, '%s_%s_%s' % (r['kind'], r['job'].get('prefix', '').replace(',', ''), '_'.join(t.replace(',', '') for t in r['job']['threads'])), script)
        rep.violation(path, '%s [prefix %s, threads %s, schedule %s at %s]; native: %s' % (r['detail'], r['job'].get('prefix'), r['job']['threads'], r['schedule'], [s[1] for s in r['sites']], v[0][1][:300]))
    # witness replays of passing schedules (interleaved ones first)
    cand = sorted([r for r in oks if r.get('witness') is not None], key=lambda r: -len(set(zip(r['schedule'], r['schedule'][1:]))))
    for r in cand[:3] + rng.sample(cand, min(3 if tier == 'quick' else 20, len(cand))):
        script = build_script(r)
        obs, e = replay.run_script(script, cfg_flags=HOOKS, timeout=300)
        rep.replays_run += 1
        if e:
            rep.inconclusive.append(e)
            break
        v, diverged = judge(script, obs)
        if v:
            rep.inconclusive.append('MODEL-MISMATCH: passing schedule %s of %s violates natively: %s' % (r['schedule'], r['job'], v[0]))
        elif diverged:
            rep.inconclusive.append('MODEL-MISMATCH: the native run could not follow the passing schedule %s of %s' % (r['schedule'], r['job']))
        else:
            rep.replays_agreed += 1
    rep.samples = [dict(prefix=r['job'].get('prefix'), threads=r['job']['threads'], schedule=r['schedule'], verdict=r['verdict'], kind=r.get('kind'), detail=r.get('detail'), delivered=r.get('delivered')) for r in cex[:3] + oks[:4]]
    return rep.finish()


def replay_entry(path):
    s = json.load(open(path))
    obs, e = replay.run_script(s, cfg_flags=HOOKS, timeout=300)
    print(json.dumps(obs)[:3000])
    v, diverged = judge(s, obs)
    if v:
        print('VIOLATION property=%s replay=%s' % (PROP, path))
        return 1
    return 0
