"""C07 / C08 / C09: checks built on the `crash` driver; replays use the cfg(walrus_verif) abort hook."""
import json
import random

from .. import engine, enginecheck, envmodel, replay, runner
from ..runner import Report

HOOKS = '--cfg walrus_verif'
KINDS = {
    'C07': {'c07-lost', 'c07-foreign', 'recover-failed', 'recover-panic', 'read-error', 'panic'},
    'C08': {'c08-partial-batch'},
    'C09': {'c09-redelivery', 'c09-skip'},
    'C10': {'c07-lost', 'c07-foreign', 'recover-failed', 'recover-panic', 'read-error', 'panic', 'c09-redelivery', 'c09-skip'},
}
POWER = {'C10'}
# per property: (tiny, medium, thorough). tiny = payloads <= 4 KiB (one block, no rotation): broad set of histories, every
# crash point; medium = payloads <= 32 MiB (rotation, multi-unit blocks) on short histories; thorough adds longer ones.
# 'pre|post': operations after the bar run after the crash recovery (appends, clean restarts) before the drain;
# suffix '/b' = the drain after the last restart starts with a batch read instead of read_next.
SKELS = {
    'C07': (['a,X|a,X', 'a,a:u|a:u,X', 'a,a', 'a,A2', 'A2,a', 'a,n,a', 'a,a:u,a', 'a,X,a|a,X', 'a,a|a/b'],
            ['a,a:u', 'a,a', 'a,A2', 'a,a:u|a:u,X'],
            ['a,a,a', 'A3', 'a,A2,a', 'a:u,a,a:u', 'A2,n,A2', 'A2,X|a,a,X']),
    'C08': (['A2', 'a,A2', 'A3', 'A2,A2', 'a,n,A2', 'A2|a,X'],
            ['A2', 'a,A2'],
            ['A4', 'a,A3,a', 'A2,A2']),
    'C09': (['a,n', 'a,a,n,n', 'a,a,b', 'a,n,a,n', 'a,n,n', 'a,n,a|a,X', 'a,a,n,a|a/b', 'a,a,n,a|a,X/b', 'a,b,a,b', 'a,a,n,X,a,n'],
            ['a,n'],
            ['a,a,n', 'a,a,a,n,b', 'A3,n,n', 'a,a,n,a,b,n', 'a,a,n,n', 'a,a,b']),
    # power loss under SyncEach: appends (single, batch, with rotation in the medium group) and consuming reads
    'C10': (['a', 'a,a', 'a,n', 'a,n,n', 'a,a,n,a', 'A2,n', 'a,b,a', 'a,n,X,a,n', 'a,n,a|a,X'],
            ['a,a', 'a,n'],
            ['a,a,a', 'A3', 'a,a,n,n,a', 'a,A2,b']),
}


def build_script(r, backend, consistency, pe):
    wit = r.get('witness') or {}
    ops = [dict(op='open')]
    for o in r['ops']:
        o = json.loads(json.dumps(o))
        for e in o.get('entries', []):
            if isinstance(e['len'], str):
                e['len'] = wit[e['len']]
        if isinstance(o.get('budget'), str):
            o['budget'] = wit[o['budget']]
        ops.append(o)
    idx, cev, ckind = r['crash']
    ops = ops[:idx + 1]
    ops[idx]['abort_at_event'] = cev + 1
    ops[idx]['expected_event_kind'] = ckind
    ops.append(dict(op='restart_process'))
    if r.get('power_loss') is not None:
        ds = []
        for d in r['power_loss']:
            d = dict(d)
            for k in ('off', 'len'):
                if isinstance(d.get(k), str):
                    d[k] = wit[d[k]]
            ds.append(d)
        ops.append(dict(op='power_loss', directives=ds))
    ops.append(dict(op='open'))
    for o in r.get('post') or []:
        o = json.loads(json.dumps(o))
        for e in o.get('entries', []):
            if isinstance(e['len'], str):
                e['len'] = wit[e['len']]
        ops.append(o)
    topics = sorted({o['topic'] for o in ops if o.get('topic')})
    for t in topics:
        n = sum(len(o.get('entries', [])) for o in ops if o.get('topic') == t)
        for _ in range(n + 2):
            if r['job'].get('drain') == 'batch':
                ops.append(dict(op='batch_read', topic=t, checkpoint=True, budget=2 ** 64 - 1, drain=True))
            else:
                ops.append(dict(op='read_next', topic=t, checkpoint=True, drain=True))
    cfgd = dict(backend=backend, consistency=consistency, persist_every=pe)
    if r['job'].get('power'):
        cfgd.update(fsync='SyncEach', snapshots=True)
    return dict(config=cfgd, ops=ops)


def judge(script, obs, kinds):
    """reference oracle for crash histories on native observations"""
    by_i = {o['i']: o for o in obs}
    acked, delivered, drained, n_post = {}, {}, {}, {}
    inflight = None
    consistency = script['config'].get('consistency', 'StrictlyAtOnce')
    crashed = False
    for i, op in enumerate(script['ops']):
        o = by_i.get(i)
        t = op.get('topic')
        if o is None:
            return [('crash', i, 'no observation for op %d' % i)]
        if o.get('aborted'):
            crashed = True
            if op['op'] in ('append', 'batch_append'):
                inflight = ('append', t, [e['uid'] for e in op['entries']])
            elif op['op'] in ('read_next', 'batch_read') and op.get('checkpoint', True):
                inflight = ('read', t, 'n' if op['op'] == 'read_next' else 'b')
            continue
        if o.get('panic') is not None or o.get('crash'):
            return [('recover-panic' if crashed else 'panic', i, 'op %s: %s' % (op['op'], {k: o[k] for k in o if k in ('panic', 'crash', 'stderr')}))]
        if op['op'] == 'power_loss' and 'err' in o:
            return [('materialise-failed', i, str(o))]
        if op['op'] in ('open',) and 'err' in o:
            return [('recover-failed', i, str(o))]
        if op['op'] in ('append', 'batch_append') and o.get('ok'):
            acked.setdefault(t, []).extend(e['uid'] for e in op['entries'])
            if crashed:
                n_post[t] = n_post.get(t, 0) + len(op['entries'])
        elif op['op'] in ('read_next', 'batch_read') and 'entries' in o:
            if op.get('drain'):
                drained.setdefault(t, []).extend(e.get('uid', ('empty' if e.get('len') == 0 else None)) for e in o['entries'])
            elif op.get('checkpoint', True):
                delivered[t] = delivered.get(t, 0) + len(o['entries'])
    if not crashed:
        return [('no-crash', -1, 'the abort point was not reached natively (event numbering differs)')]
    lens = {e['uid']: e['len'] for op in script['ops'] for e in op.get('entries', [])}
    bad = []
    for t in sorted(set(acked) | ({inflight[1]} if inflight else set())):
        ack = acked.get(t, [])
        d = delivered.get(t, 0)
        infl = inflight[2] if inflight and inflight[0] == 'append' and inflight[1] == t else []
        rin = inflight[2] if inflight and inflight[0] == 'read' and inflight[1] == t else None
        # empty payloads are indistinguishable: every empty entry is mapped to the smallest uid with an empty payload
        empties = [u for u in ack + infl if lens[u] == 0]
        canon = lambda u: min(empties) if (u in empties) else u
        ack = [canon(u) for u in ack]
        infl = [canon(u) for u in infl]
        ids = []
        for g in drained.get(t, []):
            if g == 'empty':
                g = min(empties) if empties else None
            ids.append(g)
        if None in ids:
            bad.append(('c07-foreign', -1, 'topic %s: unknown payload after recovery: %s' % (t, ids)))
            continue
        lo = d if consistency == 'StrictlyAtOnce' else 0
        hi = d if rin is None else (d + 1 if rin == 'n' else len(ack))
        ok = None
        npre = len(ack) - n_post.get(t, 0)
        pre, postack = ack[:npre], ack[npre:]
        for start in range(lo, hi + 1):
            for k in range(len(infl) + 1):
                if ids == pre[start:] + infl[:k] + postack:
                    ok = (start, k)
                    break
            if ok:
                break
        if ok is None:
            if consistency == 'StrictlyAtOnce' and ids and ids[0] in ack and ack.index(ids[0]) < d:
                bad.append(('c09-redelivery', -1, 'topic %s: entry %s delivered again (acked %s, consumed %d, recovered %s)' % (t, ids[0], ack, d, ids)))
            elif (d > 0 or rin is not None) and len(ids) < len(pre[hi:] + postack) and (pre[hi:] + postack)[len(pre[hi:] + postack) - len(ids):] == ids:
                full = pre[hi:] + postack
                bad.append(('c09-skip', -1, 'topic %s: consumer (position %d) resumes at %s, skipped %s' % (t, d, ids[:1] or 'the end', full[:len(full) - len(ids)])))
            else:
                bad.append(('c07-lost', -1, 'topic %s: acknowledged %s (consumed %d), in flight %s, recovered %s' % (t, ack, d, infl, ids)))
        elif infl and len(infl) > 1 and 0 < ok[1] < len(infl):
            bad.append(('c08-partial-batch', -1, 'topic %s: batch %s in flight, recovered only %s' % (t, infl, infl[:ok[1]])))
    return [b for b in bad if b[0] in kinds]


def finding_matches(f, r, script):
    sig = f.get('signature', {})
    if sig.get('kinds') and r['kind'] not in sig['kinds']:
        return False
    if sig.get('input') == 'sequential_batch_path':
        return script['config']['backend'] == 'mmap'
    return enginecheck.finding_matches(f, r, script)


def check_traces(rep, docs, seed, power=False):
    """the model's I/O events per operation must equal the events the hooks record natively"""
    for backend in ('fd', 'mmap'):
        job = dict(skel='a,A2,n,a,b', backend=backend, concrete=dict(sizes=[100, 5 * 2 ** 20, 6 * 2 ** 20, 50], budgets=[10 ** 9]), trace_only=True)
        if power:
            job['power'] = True
        agg = runner.explore_jobs('rsym.drivers.crash', 'mk', docs, [job], dict(seed=seed, eager_div=6), 1, 120)
        rep.absorb(agg)
        rs = [r for r in agg['results'] if r['verdict'] == 'trace']
        if len(rs) != 1:
            rep.inconclusive.append('trace validation: interpreter produced %d paths for the concrete script' % len(rs))
            return
        wit = {'size%d' % i: v for i, v in enumerate(job['concrete']['sizes'])}
        wit['budget0'] = job['concrete']['budgets'][0]
        script = enginecheck.concretise(rs[0]['ops'], wit, dict(backend=backend, consistency='StrictlyAtOnce', **(dict(fsync='SyncEach') if power else {})))
        obs, e = replay.run_script(script, cfg_flags=HOOKS)
        rep.replays_run += 1
        if e:
            rep.inconclusive.append(e)
            return
        nat = [o.get('events') for o in obs]
        if nat != rs[0]['events']:
            rep.inconclusive.append('MODEL-MISMATCH: I/O event traces differ on %s backend: model %s native %s' % (backend, rs[0]['events'], nat))
        else:
            rep.replays_agreed += 1


def run(prop, tier, seed):
    rep = Report(prop, tier, seed)
    runner.clear_replays(prop)
    kinds = KINDS[prop]
    tiny, medium, more = SKELS[prop]
    skels = tiny + medium + (more if tier == 'thorough' else [])
    rep.bounds = dict(histories='skeletons tiny=%s medium=%s more=%s (the first group with payloads 0 .. 4 KiB, the others 0 .. 32 MiB; sizes symbolic); one crash per history, placed right before any I/O event (data write, flush, file creation steps, index persist steps, io_uring submission) incl. the events of the initial open' % (tiny, medium, more if tier == 'thorough' else []),
                      crash_model='process crash: completed events persist, the interrupted one and everything after it do not happen; an io_uring batch submission is one event on the FD path (kernel-side partial completion is outside the claim), the sequential path has one event per entry',
                      after_crash='fresh process, real recovery, every topic drained with read_next (or, for /b histories, consuming batch reads)',
                      batch_size='2-3 entries per batch (4 in the thorough tier); one WAL file per history (no file rollover)')
    if prop in POWER:
        rep.bounds['crash_model'] = ('power loss right before any I/O event under FsyncSchedule::SyncEach: a data write survives if its file was synced (sync_all / msync) after it or the handle is O_SYNC; '
                                     'a file creation or rename survives if its directory was synced after it; every other write / creation is kept or dropped independently (solver-visible decisions); of the renames of the '
                                     'read-offset index only the last surviving one matters (decision: which); clean-marker renames and deletions by the reclaimer are treated as durable (outside the claim)')
    rep.assumptions = list(envmodel.ASSUMPTIONS) + ['I/O events of background threads (fsync worker, marker persister) are not crash points; the native hook counts events of the calling thread only']
    binp, err = replay.build(HOOKS)
    if not binp:
        rep.inconclusive.append('native replayer (hooks build) does not build: ' + err[-600:])
        return rep.finish()
    docs = runner.parse_sources(engine.CORE_FILES)
    rng = random.Random(seed)
    check_traces(rep, docs, seed, power=prop in POWER)
    if rep.inconclusive:
        return rep.finish()
    if prop == 'C09':
        # the persistence policy in isolation (inductive obligation over all persist_every / counter values)
        agg = runner.explore_jobs('rsym.drivers.persist', 'mk', docs, [dict(policy=True)], dict(seed=seed), 1, 60)
        rep.absorb(agg)
        rep.states += len(agg['results'])
        rep.extra['should_persist_path_classes'] = len(agg['results'])
        for r in agg['results']:
            if r['verdict'] == 'cex':
                path = runner.write_replay(prop, 'policy', dict(property=prop, driver='persist', witness=r['witness'], detail=r['detail']))
                rep.inconclusive.append('UNCONFIRMED (no native harness for the private should_persist): %s witness %s' % (r['detail'], r['witness']))
        if len(agg['results']) < 4:
            rep.inconclusive.append('vacuity: should_persist explored %d path classes (expected >= 4)' % len(agg['results']))
    def mkjob(s, b, **kw):
        s, _, dr = s.partition('/')
        pre, _, post = s.partition('|')
        j = dict(skel=pre, backend=b, consistency='StrictlyAtOnce', **kw)
        if prop in POWER:
            j['power'] = True
        if post:
            j['post'] = post
        if dr == 'b':
            j['drain'] = 'batch'
        return j
    jobs = [mkjob(s, b, sizecap=4096) for s in tiny for b in (('fd', 'mmap') if not (tier == 'quick' and s.count('A') > 1) else ('fd',))]
    if prop == 'C09':
        jobs += [dict(mkjob(s, 'fd', sizecap=4096), consistency='AtLeastOnce', persist_every=pe_) for s in tiny[:5] for pe_ in (2, 3)]
    # medium group: both back ends for the first history, FD only for the others in the quick tier (the mmap back end
    # writes a batch entry by entry, which multiplies the crash points; the thorough tier runs all of them)
    jobs += [mkjob(s, b) for k_, s in enumerate(medium) for b in (('fd', 'mmap') if (k_ == 0 or tier == 'thorough') else ('fd',))]
    if tier == 'thorough':
        jobs += [mkjob(s, b) for s in more for b in ('fd', 'mmap')]
    agg = runner.explore_jobs('rsym.drivers.crash', 'mk', docs, jobs, dict(seed=seed, eager_div=6), min(12, runner.ncpu()), 420 if tier == 'quick' else 2400)
    rep.absorb(agg)
    res = agg['results']
    rep.states += len(res)
    cex = [r for r in res if r['verdict'] == 'cex' and r['kind'] in kinds and r.get('witness') is not None]
    oks = [r for r in res if r['verdict'] == 'ok']
    rep.extra['path_classes'] = dict(ok=len(oks), counterexample=len(cex), other_property=sum(1 for r in res if r['verdict'] == 'cex' and r['kind'] not in kinds))
    rep.extra['crash_points'] = sorted({'%s/%s' % (r['crash'][0], r['crash'][2]) for r in res if r.get('crash')})
    findings = [f for f in runner.load_findings(prop) if f.get('status') == 'known']
    groups = {}
    for r in cex:
        key = (r['kind'], r['job']['skel'], r['job'].get('post'), r['job']['backend'], tuple(r['crash']))
        tot = sum(v for k, v in r['witness'].items() if k.startswith('size'))
        if key not in groups or tot < groups[key][0]:
            groups[key] = (tot, r)
    reported = set()
    n = 0
    for tot, r in sorted(groups.values(), key=lambda t_: t_[0]):
        if n >= (10 if tier == 'quick' else 30):
            break
        script = build_script(r, r['job']['backend'], r['job'].get('consistency', 'StrictlyAtOnce'), r['job'].get('persist_every', 1))
        fm = [f for f in findings if finding_matches(f, r, script)]
        if fm and all(f['id'] in reported for f in fm):
            continue
        n += 1
        obs, e = replay.run_script(script, cfg_flags=HOOKS)
        rep.replays_run += 1
        if e:
            rep.inconclusive.append(e)
            break
        v = judge(script, obs, kinds)
        if v and v[0][0] == 'no-crash':
            rep.inconclusive.append('MODEL-MISMATCH: the crash point of a counterexample is not reached natively: %s %s crash %s witness %s' % (r['kind'], r['job'], r['crash'], r['witness']))
            continue
        if v and v[0][0] == 'materialise-failed':
            rep.inconclusive.append('power-loss state could not be materialised natively: %s' % (v[0][2],))
            continue
        if not v:
            rep.inconclusive.append('MODEL-MISMATCH: crash counterexample does not reproduce natively: %s %s crash %s witness %s' % (r['kind'], r['job'], r['crash'], r['witness']))
            continue
        rep.replays_agreed += 1
        if fm:
            reported.add(fm[0]['id'])
            rep.known.append('%s (%s)' % (fm[0]['summary'], fm[0]['id']))
            continue
        script['property'] = prop
        path = runner.write_replay(prop, '%s_%s_%s_op%s_ev%s' % (r['kind'], r['job']['skel'].replace(',', ''), r['job']['backend'], r['crash'][0], r['crash'][1]), script)
        rep.violation(path, '%s [skeleton %s, %s, crash before event %s (%s) of op %s]; native: %s' % (r['detail'], r['job']['skel'], r['job']['backend'], r['crash'][1], r['crash'][2], r['crash'][0], v[0][2]))
    cand = [r for r in oks if r.get('witness') is not None]
    for r in rng.sample(cand, min(4 if tier == 'quick' else 30, len(cand))):
        script = build_script(r, r['job']['backend'], r['job'].get('consistency', 'StrictlyAtOnce'), r['job'].get('persist_every', 1))
        obs, e = replay.run_script(script, cfg_flags=HOOKS)
        rep.replays_run += 1
        if e:
            rep.inconclusive.append(e)
            break
        v = judge(script, obs, KINDS['C07'] | KINDS['C08'] | KINDS['C09'] | {'no-crash'})
        if v:
            rep.inconclusive.append('MODEL-MISMATCH: passing crash history violates natively: %s crash %s witness %s: %s' % (r['job'], r['crash'], r['witness'], v[0]))
        else:
            rep.replays_agreed += 1
    rep.samples = [dict(skeleton=r['job']['skel'], backend=r['job']['backend'], crash_before=r.get('crash'), verdict=r['verdict'], kind=r.get('kind'), detail=r.get('detail'),
                        witness=r.get('witness'), per_topic=r.get('summary')) for r in cex[:3] + oks[:4]]
    return rep.finish()


def replay_entry_for(prop):
    def f(path):
        s = json.load(open(path))
        obs, e = replay.run_script(s, cfg_flags=HOOKS)
        print(json.dumps(obs)[:3000])
        if judge(s, obs, KINDS[prop]):
            print('VIOLATION property=%s replay=%s' % (prop, path))
            return 1
        return 0
    return f
