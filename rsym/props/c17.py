"""C17 — topic clean/dirty markers reflect the latest change, across restarts."""
import json
import random

from .. import engine, envmodel, replay, runner
from ..runner import Report

PROP = 'C17'
DRV = ('rsym.drivers.markers', 'mk')


def build_script(ops, new_process):
    out = [dict(op='open')]
    uid = 0
    for o in ops:
        if o == 'append':
            out.append(dict(op='append', topic='t', entries=[dict(uid=uid, len=5)]))
            uid += 1
        elif o == 'reopen':
            out.append(dict(op='restart_process'))
            out.append(dict(op='open'))
            out.append(dict(op='is_clean', topic='t'))
            continue
        elif o == 'clean':
            out.append(dict(op='mark_clean', topic='t'))
        else:
            out.append(dict(op='mark_dirty', topic='t'))
        out.append(dict(op='is_clean', topic='t'))
    out.append(dict(op='restart_process') if new_process else dict(op='reopen'))
    if new_process:
        out.append(dict(op='open'))
    out.append(dict(op='is_clean', topic='t'))
    return dict(config=dict(backend='fd', consistency='StrictlyAtOnce', fsync='Milliseconds', fsync_ms=5), ops=out, property=PROP, marker_ops=ops)


def judge(script, obs):
    exp = None
    by_i = {o['i']: o for o in obs}
    for i, op in enumerate(script['ops']):
        o = by_i.get(i)
        if o is None or o.get('panic') is not None or o.get('crash'):
            return 'op %d did not complete: %s' % (i, o)
        if op['op'] == 'append':
            exp = False
        elif op['op'] == 'mark_clean':
            exp = True
        elif op['op'] == 'mark_dirty':
            exp = False
        elif op['op'] == 'is_clean' and exp is not None and o.get('clean') != exp:
            return 'op %d: topic_is_clean = %s, the last state set was %s' % (i, o.get('clean'), 'clean' if exp else 'dirty')
    return None


def main(tier, seed):
    rep = Report(PROP, tier, seed)
    runner.clear_replays(PROP)
    L = 4 if tier == 'quick' else 5
    rep.bounds = dict(histories='every sequence of <= %d operations from {append, mark_topic_clean, mark_topic_dirty, clean shutdown + reopen} on one topic, then drop and reopen' % L,
                      schedules='three persister schedules: it never runs, it completes a full pass before the instance is dropped, or it holds an upgraded strong reference when the instance is dropped and the process exits before it writes')
    rep.assumptions = list(envmodel.ASSUMPTIONS) + ['recv_timeout delivers queued topics, then times out; Weak::upgrade fails once the instance was dropped',
                                                      'dropping the instance runs the Drop impls found in the source (Arc counts modelled)']
    binp, err = replay.build()
    if not binp:
        rep.inconclusive.append('native replayer does not build: ' + err[-500:])
        return rep.finish()
    docs = runner.parse_sources(engine.CORE_FILES)
    rng = random.Random(seed)
    jobs = [dict(len=n) for n in range(1, L + 1)]
    agg = runner.explore_jobs(DRV[0], DRV[1], docs, jobs, dict(seed=seed), min(8, runner.ncpu()), 200 if tier == 'quick' else 1200)
    rep.absorb(agg)
    res = agg['results']
    rep.states += len(res)
    cex = [r for r in res if r['verdict'] == 'cex']
    oks = [r for r in res if r['verdict'] == 'ok']
    rep.extra['path_classes'] = dict(ok=len(oks), counterexample=len(cex), persister_ran=sum(1 for r in res if r.get('persister_ran')))
    if not any(r.get('persister_ran') for r in oks):
        rep.inconclusive.append('vacuity: no path in which the persister ran and the state survived')
    seen = set()
    for r in sorted(cex, key=lambda r: len(r['ops'])):
        key = (r['kind'], tuple(r['ops']))
        if key in seen or len(seen) >= 4:
            continue
        seen.add(key)
        # the real window is timing dependent: repeat the native run a bounded number of times
        reproduced = None
        script = build_script(r['ops'], True)
        for attempt in range(10):
            obs, e = replay.run_script(script)
            rep.replays_run += 1
            if e:
                rep.inconclusive.append(e)
                break
            v = judge(script, obs)
            if v:
                reproduced = v
                break
        if not reproduced:
            rep.inconclusive.append('UNCONFIRMED: %s did not reproduce in 10 native attempts' % r['detail'])
            continue
        rep.replays_agreed += 1
        path = runner.write_replay(PROP, '%s_%s' % (r['kind'], '_'.join(r['ops'])), script)
        rep.violation(path, '%s; native: %s' % (r['detail'], reproduced))
    for r in rng.sample(oks, min(3 if tier == 'quick' else 12, len(oks))):
        script = build_script(r['ops'], True)
        obs, e = replay.run_script(script)
        rep.replays_run += 1
        v = judge(script, obs) if not e else e
        if v and not r.get('persister_ran'):
            rep.inconclusive.append('MODEL-MISMATCH: passing history %s violates natively: %s' % (r['ops'], v))
        else:
            rep.replays_agreed += 1
    rep.samples = [dict(ops=r['ops'], verdict=r['verdict'], persister_ran_before_drop=r.get('persister_ran'), detail=r.get('detail')) for r in cex[:3] + oks[:4]]
    return rep.finish()


def replay_entry(path):
    s = json.load(open(path))
    for _ in range(10):
        obs, e = replay.run_script(s)
        if judge(s, obs):
            print(json.dumps(obs))
            print('VIOLATION property=%s replay=%s' % (PROP, path))
            return 1
    return 0
