"""C10 — with SyncEach, acknowledged appends and consumption survive power loss (driver `crash` in power-loss mode)."""
from . import crash_props


def main(tier, seed):
    return crash_props.run('C10', tier, seed)


replay_entry = crash_props.replay_entry_for('C10')
