"""C11 — opening damaged WAL state never crashes and never returns corrupt data.
Engine R part (`corrupt` driver) + Kani lemma L4 on Block::read (kani/ directory, thorough tier)."""
import json
import os
import random

from .. import engine, envmodel, replay, runner
from ..runner import Report

PROP = 'C11'
DRV = ('rsym.drivers.corrupt', 'mk')
DAMAGES = ['hdr_fields', 'hdr_size', 'hdr_invalid', 'hdr_len', 'hdr_zero', 'truncate', 'stray', 'index_garbage', 'index_empty']


def build_script(r, rng):
    wit = r.get('witness') or {}
    ops = [dict(op='open')]
    for o in r['ops']:
        o = json.loads(json.dumps(o))
        for e in o.get('entries', []):
            if isinstance(e['len'], str):
                e['len'] = wit[e['len']]
        ops.append(o)
    d = r['damage']
    k = d['kind']
    if k.startswith('hdr_'):
        off = d['offset']
        if k in ('hdr_fields', 'hdr_size'):
            rs = wit['bad_read_size']
            ops.append(dict(op='corrupt', wal_index=d['wal_index'], offset=off + 26, bytes=list(rs.to_bytes(4, 'little'))))
            if k == 'hdr_fields':
                ops.append(dict(op='corrupt', wal_index=d['wal_index'], offset=off + 18, bytes=[rng.randrange(256) for _ in range(8)]))
                name = d.get('owner', 't').encode()
                ops.append(dict(op='corrupt', wal_index=d['wal_index'], offset=off + 2, bytes=list(name) + [0] * (7 - len(name)) + [len(name)] if name else [0] * 7 + [0]))
        elif k == 'hdr_invalid':
            ops.append(dict(op='corrupt', wal_index=d['wal_index'], offset=off + 2, bytes=[255] * 32))
        elif k == 'hdr_len':
            ops.append(dict(op='corrupt', wal_index=d['wal_index'], offset=off, bytes=[wit['bad_len_lo'], wit['bad_len_hi']]))
        else:
            ops.append(dict(op='corrupt', wal_index=d['wal_index'], offset=off, bytes=[0] * 256))
    elif k == 'truncate':
        ops.append(dict(op='corrupt', wal_index=d['wal_index'], truncate=wit['new_len']))
    elif k == 'stray':
        for name in d['files']:
            ops.append(dict(op='corrupt', file='stray:' + name, bytes=[1, 2, 3, 4] * 20))
    elif k == 'index_garbage':
        ops.append(dict(op='corrupt', file='index', truncate=0))
        ops.append(dict(op='corrupt', file='index', bytes=[0xAB] * 40))
    elif k == 'index_empty':
        ops.append(dict(op='corrupt', file='index', truncate=0))
    ops.append(dict(op='restart_process'))
    ops.append(dict(op='open'))
    topics = sorted({o['topic'] for o in ops if o.get('topic')} | {'u'})
    for t in topics:
        n = sum(len(o.get('entries', [])) for o in ops if o.get('topic') == t)
        for _ in range(n + 2):
            ops.append(dict(op='read_next', topic=t, checkpoint=True, drain=True))
        ops.append(dict(op='batch_read', topic=t, budget=2 ** 62, checkpoint=False, drain=True))
    return dict(config=dict(backend=r['job'].get('backend', 'fd'), consistency='StrictlyAtOnce'), ops=ops, property=PROP, damage=d)


def judge(script, obs):
    by_i = {o['i']: o for o in obs}
    lens, topic_of = {}, {}
    for op in script['ops']:
        for e in op.get('entries', []):
            lens[e['uid']] = e['len']
            topic_of[e['uid']] = op['topic']
    after = False
    for i, op in enumerate(script['ops']):
        o = by_i.get(i)
        if op['op'] == 'restart_process':
            after = True
        if o is None:
            return 'no observation for op %d (%s): the process died or hung' % (i, op['op'])
        if o.get('crash') or o.get('timeout') or o.get('panic') is not None:
            return 'op %d (%s) on the damaged directory: %s' % (i, op['op'], {k: o[k] for k in o if k in ('panic', 'crash', 'timeout', 'returncode', 'stderr')})
        if after and 'entries' in o:
            for en in o['entries']:
                if en.get('len') == 0 and 'uid' not in en:
                    if not any(l == 0 and topic_of[u] == op['topic'] for u, l in lens.items()):
                        return 'op %d returned an empty entry that was never appended to %s' % (i, op['topic'])
                    continue
                u = en.get('uid')
                if u is None or topic_of.get(u) != op['topic'] or en.get('start') != 0 or en.get('len') != lens[u]:
                    return 'op %d returned %s, which is not an entry appended to topic %s' % (i, en, op['topic'])
    return None


def main(tier, seed):
    rep = Report(PROP, tier, seed)
    runner.clear_replays(PROP)
    skels = ['a,a', 'a,A2'] + (['a,a,a', 'a:u,a,a:u', 'a,n,a', 'A3'] if tier == 'thorough' else [])
    rep.bounds = dict(histories='valid directory states produced by skeletons %s (sizes symbolic; quick tier: <= 4 KiB for every damage kind, <= 32 MiB for hdr_size/hdr_zero on the first history; thorough: <= 32 MiB everywhere), clean shutdown' % skels,
                      damage='one of: a header replaced by a well-formed archive with arbitrary read_size/checksum/owner; only read_size changed; header bytes that fail validation; arbitrary 2-byte length prefix; zeroed header (each at a symbolic entry position); a WAL file truncated to a symbolic length; stray files in the directory; cursor index replaced by garbage or emptied',
                      after='real Walrus::with_paths (recovery), read_next until empty and one peeking batch read per topic',
                      kani='lemma L4 (Block::read on an arbitrary 256-byte header, fixed meta_len class per harness) is run by the thorough tier when kani/ harnesses are present')
    rep.assumptions = list(envmodel.ASSUMPTIONS) + ['a damaged checksum field never equals the checksum of the bytes actually read (no FNV collision, no adversarially recomputed checksum)',
                                                      'rkyv::check_archived_root on bytes that are not a written header either fails or is counted as an imprecise path',
                                                      'bit flips inside payload bytes are not modelled (payload content is abstract); they are caught by the checksum under the same assumption']
    binp, err = replay.build()
    if not binp:
        rep.inconclusive.append('native replayer does not build: ' + err[-500:])
        return rep.finish()
    docs = runner.parse_sources(engine.CORE_FILES)
    rng = random.Random(seed)
    jobs = []
    for s in skels:
        for b in ('fd', 'mmap'):
            for d in DAMAGES:
                if d in ('stray', 'index_garbage', 'index_empty') and s != skels[0]:
                    continue
                if tier == 'quick' and d == 'truncate' and s != skels[0]:
                    continue          # truncation of the second history: thorough tier only (the most expensive damage kind)
                j = dict(skel=s if not d.startswith('index') else s + ',n', backend=b, damage=d)
                if tier == 'quick':
                    # broad set with small entries (one block); entries up to 32 MiB (multi-unit blocks) only for the damages whose
                    # handling depends on block geometry, FD back end, first history
                    jobs.append(dict(j, sizecap=4096))
                    if s == skels[0] and b == 'fd' and d in ('hdr_size', 'hdr_zero'):
                        jobs.append(j)
                else:
                    jobs.append(j)
    agg = runner.explore_jobs(DRV[0], DRV[1], docs, jobs, dict(seed=seed, eager_div=6), min(12, runner.ncpu()), 420 if tier == 'quick' else 2400)
    rep.absorb(agg)
    res = agg['results']
    rep.states += len(res)
    cex = [r for r in res if r['verdict'] == 'cex' and r.get('witness') is not None]
    oks = [r for r in res if r['verdict'] == 'ok']
    rep.extra['path_classes'] = dict(ok=len(oks), counterexample=len(cex))
    rep.extra['damage_kinds_explored'] = sorted({r['damage']['kind'] for r in res})
    missing = set(DAMAGES) - {r['damage']['kind'] for r in res}
    if missing:
        rep.notes.append('damage kinds not reached within the budget: %s' % sorted(missing))
    groups = {}
    for r in cex:
        key = (r['kind'], r['damage']['kind'], r['job']['backend'])
        tot = sum(v for k, v in r['witness'].items() if k.startswith('size'))
        if key not in groups or tot < groups[key][0]:
            groups[key] = (tot, r)
    for tot, r in sorted(groups.values(), key=lambda t: t[0])[:10]:
        script = build_script(r, rng)
        obs, e = replay.run_script(script, timeout=300)
        rep.replays_run += 1
        if e:
            rep.inconclusive.append(e)
            break
        v = judge(script, obs)
        if not v:
            rep.inconclusive.append('MODEL-MISMATCH: damage counterexample does not reproduce natively: %s %s %s witness %s' % (r['kind'], r['damage'], r['job'], r['witness']))
            continue
        rep.replays_agreed += 1
        path = runner.write_replay(PROP, '%s_%s_%s' % (r['kind'], r['damage']['kind'], r['job']['backend']), script)
        rep.violation(path, '%s [damage %s, skeleton %s, %s]; native: %s' % (r['detail'], r['damage']['kind'], r['job']['skel'], r['job']['backend'], v))
    byk = {}
    for r in oks:
        if r.get('witness') is not None and sum(v for k, v in r['witness'].items() if k.startswith('size')) < 64 * 2 ** 20:
            byk.setdefault((r['damage']['kind'], r['job']['backend']), []).append(r)
    picks = [rng.choice(v) for k, v in sorted(byk.items())]
    for r in picks[:(8 if tier == 'quick' else 40)]:
        script = build_script(r, rng)
        obs, e = replay.run_script(script, timeout=300)
        rep.replays_run += 1
        v = judge(script, obs) if not e else e
        if v:
            # a native crash on a damage class the model judged harmless is a real finding of the replay (reported), not silently dropped
            path = runner.write_replay(PROP, 'native_%s_%s' % (r['damage']['kind'], r['job']['backend']), script)
            rep.violation(path, 'damage %s on %s (model judged it harmless): %s' % (r['damage']['kind'], r['job']['backend'], v))
        else:
            rep.replays_agreed += 1
    if tier == 'thorough' and os.path.exists(os.path.join(runner.VERIF, 'kani', 'run_l4.sh')):
        kr = runner.sh('bash kani/run_l4.sh', cwd=runner.VERIF)
        rep.extra['kani_l4'] = kr.stdout[-3000:]
        if kr.returncode == 1:
            rep.violation(os.path.join(runner.VERIF, 'kani', 'last_counterexample.txt'), 'Kani lemma L4 reports a failing property in Block::read on an arbitrary header (see kani_l4 in the evidence)')
        elif kr.returncode != 0:
            rep.notes.append('Kani lemma L4 inconclusive (exit %d)' % kr.returncode)
    rep.samples = [dict(skeleton=r['job']['skel'], backend=r['job']['backend'], damage=r['damage'], verdict=r['verdict'], kind=r.get('kind'), detail=r.get('detail'), witness=r.get('witness')) for r in cex[:3] + picks[:5]]
    return rep.finish()


def replay_entry(path):
    s = json.load(open(path))
    obs, e = replay.run_script(s, timeout=300)
    print(json.dumps(obs)[:3000])
    if judge(s, obs):
        print('VIOLATION property=%s replay=%s' % (PROP, path))
        return 1
    return 0
