"""C02 — non-consuming reads never change what later reads or counts see (driver `stream` with peeks and offset reads)."""
import json

from .. import enginecheck

QUICK = ['a,a,P,b,c', 'a,p,n,c', 'a,a,o,n,c', 'a,n,a,P,b', 'A2,o,b,c', 'a,a,p,P,b,n']
THOROUGH = ['a,a,a,P,b,b', 'a,a,o,o,b,c', 'a,P,a,b,n,c', 'a,a,n,o,P,b', 'A3,P,b,o,c', 'a,a:u,P,b:u,n']
DIFF = [
    dict(skel='a,a,a,p,n,P,b,c', sizes=[10, 200, 3000], budgets=[5000]),
    dict(skel='a,a,o,n,c', sizes=[300, 400], budgets=[10 ** 6], offsets=[0]),
    dict(skel='a,a,o,n,c', sizes=[300, 400], budgets=[10 ** 6], offsets=[600]),
]
enginecheck.KINDS['C02'] = {'peek-differs', 'offset-read', 'panic', 'read-error', 'wrong-entry', 'no-progress', 'phantom', 'count'}


def main(tier, seed):
    skels = QUICK + (THOROUGH if tier == 'thorough' else [])
    jobs = [dict(skel=s, backend='fd', consistency='StrictlyAtOnce') for s in skels]
    jobs += [dict(skel=s, backend='mmap', consistency='StrictlyAtOnce') for s in skels[:2]]
    jobs += [dict(skel=s, backend='fd', consistency='AtLeastOnce', persist_every=2) for s in skels[:2]]
    bounds = dict(histories='skeletons %s: p = read_next(checkpoint=false), P = batch read with checkpoint=false (a following b uses the same byte budget), o = offset-addressed batch read with symbolic offset, budget and checkpoint flag' % skels,
                  payload_size='0 .. 2^30-256', byte_budget='0 .. 2^64-1', start_offset='0 .. 2^64-1', wall_budget_s=240 if tier == 'quick' else 2400)
    return enginecheck.run('C02', tier, seed, jobs, enginecheck.KINDS['C02'], bounds['wall_budget_s'], DIFF, bounds,
                           cfg=dict(oracles=['C01', 'C15', 'C02']))


def replay_entry(path):
    from .. import replay as rp
    s = json.load(open(path))
    obs, e = rp.run_script(s)
    print(json.dumps(obs))
    if enginecheck.judge(s, obs, enginecheck.KINDS['C02']):
        print('VIOLATION property=C02 replay=%s' % path)
        return 1
    return 0
