from . import stream_props


def main(tier, seed):
    return stream_props.run('C15', tier, seed)


def replay(path):
    from .. import enginecheck, replay as rp
    import json
    s = json.load(open(path))
    obs, e = rp.run_script(s)
    v = enginecheck.judge(s, obs, enginecheck.KINDS['C15'])
    print(json.dumps(obs))
    for k in v:
        print('VIOLATION property=C15 replay=%s' % path)
        return 1
    return 0
