"""C25 — segment storage keys map one-to-one to (topic, segment)."""
import json
import os
import random
import subprocess

from .. import runner
from ..runner import Report, VERIF, BUILD

PROP = 'C25'
DRV = ('rsym.drivers.walkey', 'mk')
FILES = ['distributed-walrus/src/controller/types.rs']


def build_native():
    env = dict(os.environ, CARGO_NET_OFFLINE='true', CARGO_TARGET_DIR=os.path.join(BUILD, 'dshim'))
    r = runner.sh('cargo build --release --offline --bin walkey', cwd=os.path.join(VERIF, 'native', 'dshim'), env=env)
    if r.returncode != 0:
        return None, r.stderr[-1500:]
    return os.path.join(BUILD, 'dshim', 'release', 'walkey'), None


def native(binpath, cases):
    inp = '\n'.join(json.dumps(c) for c in cases) + '\n'
    r = subprocess.run([binpath], input=inp, capture_output=True, text=True)
    return [json.loads(l) for l in r.stdout.splitlines()]


ALPHA = [ord(c) for c in '_st+-0159aZ /.'] + [0, 0x7f, 0xe9, 0x4e2d, 0x1f600, 0xd7ff, 0xe000, 0x10ffff]


def random_cases(rng, n):
    out = []
    for _ in range(n):
        ln = rng.choice([0, 1, 2, 3, 4, 5, 6, 8, 12, 20])
        topic = [rng.choice(ALPHA) for _ in range(ln)]
        if rng.random() < 0.3 and ln >= 3:
            i = rng.randrange(0, ln - 2)
            topic[i:i + 3] = [95, 115, 95]
        seg = rng.choice([0, 1, 9, 10, 2 ** 32, 2 ** 63, 2 ** 64 - 1, rng.randrange(2 ** 64)])
        out.append({'topic': topic, 'segment': seg})
    return out


def main(tier, seed):
    rep = Report(PROP, tier, seed)
    maxlen = 12 if tier == 'quick' else 40
    budget = 150 if tier == 'quick' else 1500
    rep.bounds = {'topic_length': '0..%d code points, each any Unicode scalar value' % maxlen, 'segment': 'all u64 (1..20 decimal digits)'}
    rep.assumptions = [
        'format!("t_{}_s_{}") = concatenation with decimal rendering (no leading zeros)',
        'str::rsplitn(2, pat) splits at the last occurrence of pat',
        'str::strip_prefix, str::parse::<u64> (optional +, ASCII digits, range check) as documented',
        'strings are vectors of code points whose length is concrete per path class',
    ]
    binp, err = build_native()
    if not binp:
        rep.inconclusive.append('native replay harness does not build: ' + err)
        return rep.finish()
    docs = runner.parse_sources(FILES)
    # 1. differential validation of interpreter + library models in concrete mode
    rng = random.Random(seed)
    cases = []
    for c in random_cases(rng, 200 if tier == 'quick' else 2000):
        if c not in cases:
            cases.append(c)
    nat = native(binp, cases)
    agg = runner.explore_jobs(DRV[0], DRV[1], docs, [dict(c, len=len(c['topic'])) for c in cases], {'seed': seed}, 1 if tier == 'quick' else min(8, runner.ncpu()), 120 if tier == 'quick' else 900)
    rep.absorb(agg)
    by = {json.dumps({'topic': r['job']['topic'], 'segment': r['job']['segment']}): r for r in agg['results']}
    for c, nres in zip(cases, nat):
        r = by.get(json.dumps(c))
        rep.replays_run += 1
        if r is None:
            rep.inconclusive.append('MODEL-MISMATCH: concrete case %s not executed by the interpreter' % c)
            continue
        same = r['key'] == nres['key'] and r['some'] == nres['some'] and (not r['some'] or (r['ptopic'] == nres['topic'] and r['pseg'] == nres['segment']))
        if not same:
            rep.inconclusive.append('MODEL-MISMATCH: interpreter and native disagree on %s: %s vs %s' % (c, r, nres))
            break
        rep.replays_agreed += 1
        if not nres['roundtrip']:
            path = runner.write_replay(PROP, 'diff_%d' % rep.replays_run, dict(property=PROP, driver='walkey', case=c, native=nres))
            rep.violation(path, 'round trip fails natively for topic=%s segment=%d' % (c['topic'], c['segment']))
    if rep.inconclusive:
        return rep.finish()
    # 2. symbolic exploration
    jobs = [{'len': n} for n in range(0, maxlen + 1)]
    agg = runner.explore_jobs(DRV[0], DRV[1], docs, jobs, {'seed': seed}, min(8, runner.ncpu()), budget)
    rep.absorb(agg)
    res = agg['results']
    rep.states += len(res)
    cex = [r for r in res if r['verdict'] == 'cex']
    oks = [r for r in res if r['verdict'] == 'ok']
    lens_done = sorted({r['job']['len'] for r in res})
    rep.extra['topic_lengths_explored'] = lens_done
    rep.extra['path_classes_per_length'] = {str(n): sum(1 for r in res if r['job']['len'] == n) for n in lens_done}
    # vacuity: every length reached the assertion with all 20 digit classes
    for n in lens_done:
        if not agg['unfinished_jobs'] and sum(1 for r in res if r['job']['len'] == n) < 20:
            rep.inconclusive.append('vacuity: fewer than 20 digit classes reached the oracle for length %d' % n)
    # 3. replay counterexamples natively (gate)
    seen = 0
    for r in cex:
        if not r.get('witness'):
            rep.inconclusive.append('counterexample without model: %s' % r)
            continue
        if seen >= 20:
            break
        seen += 1
        nres = native(binp, [r['witness']])[0]
        rep.replays_run += 1
        if not nres['roundtrip']:
            rep.replays_agreed += 1
            path = runner.write_replay(PROP, 'cex_len%d_%d' % (r['job']['len'], seen), dict(property=PROP, driver='walkey', case=r['witness'], native=nres))
            rep.violation(path, 'parse_wal_key(wal_key(t,s)) != (t,s) for topic code points %s segment %d (native: %s)' % (r['witness']['topic'], r['witness']['segment'], nres))
        else:
            rep.inconclusive.append('MODEL-MISMATCH: solver counterexample %s does not reproduce natively' % r['witness'])
    # 4. witness replay of passing path classes
    sample = oks if tier == 'thorough' else rng.sample(oks, min(60, len(oks)))
    ws = [r['witness'] for r in sample if r.get('witness')]
    if ws:
        for w, nres in zip(ws, native(binp, ws)):
            rep.replays_run += 1
            if nres['roundtrip']:
                rep.replays_agreed += 1
            else:
                rep.inconclusive.append('MODEL-MISMATCH: passing path class witness %s fails natively' % w)
    rep.samples = [dict(path_class='topic length %d, key length %d' % (r['job']['len'], r['keylen']), verdict=r['verdict'], witness=r.get('witness')) for r in (cex[:3] + oks[:5] + oks[-3:])]
    return rep.finish()


def replay(path):
    binp, err = build_native()
    s = json.load(open(path))
    nres = native(binp, [s['case']])[0]
    print(json.dumps(nres))
    if not nres['roundtrip']:
        print('VIOLATION property=%s replay=%s' % (PROP, path))
        return 1
    return 0
