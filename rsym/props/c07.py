from . import crash_props


def main(tier, seed):
    return crash_props.run('C07', tier, seed)


replay_entry = crash_props.replay_entry_for('C07')
