"""C14 — a namespace key always maps to a private directory inside the data dir."""
import json
import random

from .. import replay, runner
from ..runner import Report

PROP = 'C14'
DRV = ('rsym.drivers.nskey', 'mk')
FILES = ['src/wal/config.rs', 'src/wal/paths.rs']
CTORS = ['with_data_dir', 'for_key', 'default_thread', 'default_env']


def native_listing(key_cps):
    script = dict(config=dict(backend='fd', key=key_cps), ops=[dict(op='open', subdir='d'), dict(op='append', entries=[dict(uid=0, len=3)]), dict(op='list_dir')])
    obs, e = replay.run_script(script)
    return script, obs, e


def judge(obs):
    """violations of C14 in the native directory listing (relative to the parent of the data dir `d`)"""
    if obs is None:
        return ['no observation']
    o0 = obs[0]
    if 'err' in o0:
        return []          # refusing the key is not a violation of the statement
    if o0.get('panic') is not None or o0.get('crash'):
        return ['open crashed: %s' % o0]
    files = [o for o in obs if o.get('op') == 'list_dir']
    if not files:
        return ['no listing: %s' % obs[-1]]
    bad = []
    for f in files[0]['files']:
        if f.endswith('/'):
            continue
        parts = f.split('/')
        if len(parts) < 3 or parts[0] != 'd':
            bad.append('file %r is not inside a private sub-directory of the data dir' % f)
    return bad


ALPHA = [46, 47, 95, 45, 0, 32, 92, 97, 90, 48, 0xe9, 0x2215, 0x1f600, 9, 10]


def main(tier, seed):
    rep = Report(PROP, tier, seed)
    maxlen = 8 if tier == 'quick' else 24
    rep.bounds = {'key_length': '0..%d code points, each any Unicode scalar value' % maxlen, 'constructors': CTORS}
    rep.assumptions = ['PathBuf::push(c) appends c as one component unless c starts with / (then it replaces the path)',
                       'checksum64 of the key is an arbitrary u64 rendered as 1..16 lower-case hex digits',
                       'char::is_ascii_alphanumeric, str::trim_matches, chars().map().collect() as documented; the per-character closure is merged into an If-term',
                       'thread namespace / WALRUS_INSTANCE_KEY are modelled as "the key arrives through that channel"']
    binp, err = replay.build()
    if not binp:
        rep.inconclusive.append('native replayer does not build: ' + err[-500:])
        return rep.finish()
    docs = runner.parse_sources(FILES)
    rng = random.Random(seed)
    # 1. differential: concrete keys through interpreter (component) and real engine (directory that appears)
    cases = [[97, 98], [32, 47, 33], [], [95, 95], [46, 97], [0x1f600]] + [[rng.choice(ALPHA) for _ in range(rng.randrange(1, 7))] for _ in range(6 if tier == 'quick' else 40)]
    cases = [c for c in cases if not (c and all(ch == 46 for ch in c) and len(c) <= 2)]
    agg = runner.explore_jobs(DRV[0], DRV[1], docs, [dict(len=len(c), ctor='with_data_dir', key=c) for c in cases], {'seed': seed}, 1, 120)
    rep.absorb(agg)
    for c in cases:
        rs = [r for r in agg['results'] if r['job'].get('key') == c]
        script, obs, e = native_listing(c)
        rep.replays_run += 1
        if e or not rs:
            rep.inconclusive.append('differential case %s could not be run: %s' % (c, e))
            continue
        nv = judge(obs)
        iv = [r for r in rs if r['verdict'] == 'cex']
        if nv or iv:
            if nv and iv:
                rep.replays_agreed += 1
                script['property'] = PROP
                path = runner.write_replay(PROP, 'diff_key_%s' % '_'.join(map(str, c)), script)
                rep.violation(path, 'key %r (code points %s): %s' % (''.join(chr(ch) for ch in c), c, nv[0]))
            else:
                rep.inconclusive.append('MODEL-MISMATCH: key %s: interpreter verdict %s, native verdict %s' % (c, [r.get('detail') for r in iv], nv))
            continue
        comps = {''.join(chr(x) if x is not None else '?' for x in r['component']) for r in rs if r.get('component') is not None}
        dirs = [f for f in obs[-1].get('files', []) if f.endswith('/') and f.count('/') == 2 and f.startswith('d/')]
        names = {d[2:-1] for d in dirs}
        hexfallback = any(n.startswith('ns_') for n in names) and any(cc.startswith('ns_') for cc in comps)
        if not (names & comps) and not hexfallback:
            rep.inconclusive.append('MODEL-MISMATCH: key %s: interpreter component %s, real directory %s' % (c, sorted(comps), sorted(names)))
        else:
            rep.replays_agreed += 1
    if rep.inconclusive or rep.violations:
        return rep.finish()
    # 2. symbolic exploration
    jobs = [dict(len=n, ctor=ct) for ct in CTORS for n in range(0, maxlen + 1)]
    agg = runner.explore_jobs(DRV[0], DRV[1], docs, jobs, {'seed': seed}, min(8, runner.ncpu()), 200 if tier == 'quick' else 1500)
    rep.absorb(agg)
    res = agg['results']
    rep.states += len(res)
    cex = [r for r in res if r['verdict'] == 'cex']
    oks = [r for r in res if r['verdict'] == 'ok']
    rep.extra['path_classes'] = dict(ok=len(oks), counterexample=len(cex))
    findings = runner.load_findings(PROP)
    seen = set()
    for r in sorted(cex, key=lambda r: len(r['witness']['key'] or [])):
        key = tuple(r['witness']['key'])
        if key in seen or len(seen) >= 12:
            continue
        seen.add(key)
        script, obs, e = native_listing(list(key))
        rep.replays_run += 1
        v = judge(obs)
        if not v:
            rep.inconclusive.append('MODEL-MISMATCH: solver counterexample key %s does not reproduce natively (%s)' % (list(key), json.dumps(obs)[:300]))
            continue
        rep.replays_agreed += 1
        script['property'] = PROP
        path = runner.write_replay(PROP, 'key_%s' % '_'.join(map(str, key)), script)
        rep.violation(path, 'key %r (code points %s) via %s: %s' % (''.join(chr(c) for c in key), list(key), r['witness']['ctor'], v[0]))
    # 3. witness replay of passing classes
    for r in rng.sample(oks, min(8 if tier == 'quick' else 60, len(oks))):
        k = r['witness']['key']
        if k is None or any(c == 0 for c in k):
            continue
        script, obs, e = native_listing(k)
        rep.replays_run += 1
        v = judge(obs)
        if v:
            rep.inconclusive.append('MODEL-MISMATCH: passing path class witness key %s violates natively: %s' % (k, v[0]))
        else:
            rep.replays_agreed += 1
    rep.samples = [dict(ctor=r['job']['ctor'], key_length=r['job']['len'], verdict=r['verdict'], witness_key=r['witness']['key'], detail=r.get('detail')) for r in cex[:3] + oks[:5]]
    return rep.finish()


def replay_cmd(path):
    s = json.load(open(path))
    obs, e = replay.run_script(s)
    print(json.dumps(obs))
    if judge(obs):
        print('VIOLATION property=%s replay=%s' % (PROP, path))
        return 1
    return 0


replay = replay  # module
def replay_entry(path):
    return replay_cmd(path)
