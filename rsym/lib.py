"""Library models: std / rkyv / containers. Each function is part of every claim that uses it."""
import z3

from .values import *  # noqa: F401,F403


# ============================================================================ macros
def macro(x, e, env):
    n = e['name']
    if n in ('debug_print', 'info', 'tracing::info', 'tracing::debug', 'tracing::warn', 'tracing::error', 'warn', 'error',
             'debug', 'trace', 'println', 'eprintln', 'debug_assert', 'debug_assert_eq', 'debug_assert_ne'):
        return UNIT
    if n == 'format':
        return fmt(x, e, env)
    if n == 'vec':
        raw = e['raw']
        if e['args'] is None or (';' in raw and top_level_semicolon(raw)):
            return vec_repeat(x, raw, env, e)
        return VVec([x.eval(a, env) for a in (e['args'] or [])])
    if n == 'matches':
        v = x.deref(x.eval(e['args'][0], env))
        return matches_pat(x, v, e['args'][1])
    if n in ('assert', 'assert_eq', 'assert_ne'):
        args = [x.eval(a, env) for a in e['args'][:2]]
        if n == 'assert':
            c = args[0]
        else:
            c = x.binop('==' if n == 'assert_eq' else '!=', args[0], args[1])
        if not x.branch(c):
            raise Panic('assertion failed line %s' % e.get('line'))
        return UNIT
    if n in ('panic', 'unreachable', 'unimplemented', 'todo'):
        raise Panic('%s! line %s' % (n, e.get('line')))
    if n in ('bail', 'anyhow::bail'):
        raise Return(Err(PStr('bail')))
    if n in ('anyhow', 'anyhow::anyhow'):
        return fmt(x, e, env)
    raise Unsupported('macro %s line %s' % (n, e.get('line')))


def top_level_semicolon(raw):
    depth = 0
    for ch in raw:
        if ch in '([{':
            depth += 1
        elif ch in ')]}':
            depth -= 1
        elif ch == ';' and depth == 0:
            return True
    return False


def matches_pat(x, v, p):
    k = p['k']
    if k == 'path':
        name = p['path']['segs'][-1]['id']
        if isinstance(v, EnumV):
            return v.variant == name
        if isinstance(v, ConstV):
            return v.last() == name
        raise Unsupported('matches! on %r' % type(v))
    if k == 'binary' and p['op'] == '|':
        return x.lor(matches_pat(x, v, p['l']), matches_pat(x, v, p['r']))
    if k == 'lit':
        return x.binop('==', v, x.e_lit(p, None))
    if k == 'call':    # Variant(_)
        name = p['func']['path']['segs'][-1]['id']
        return isinstance(v, EnumV) and v.variant == name
    if k == 'struct':
        name = p['path']['segs'][-1]['id']
        return isinstance(v, EnumV) and v.variant == name
    raise Unsupported('matches! pattern %s' % k)


def vec_repeat(x, raw, env, e):
    # raw like "0u8 ; size" or "Vec :: new () ; plan . len ()"
    depth = 0
    idx = None
    for i, ch in enumerate(raw):
        if ch in '([{':
            depth += 1
        elif ch in ')]}':
            depth -= 1
        elif ch == ';' and depth == 0:
            idx = i
            break
    elem, cnt = raw[:idx].strip(), raw[idx + 1:].strip()
    cnt_v = x.eval_src(cnt, env)
    el = elem.replace(' ', '')
    hint = (x.type_hint or '').replace(' ', '')
    if el == '0' and hint in ('Vec<usize>', 'Vec<u64>'):
        n = x.concrete_index(cnt_v, 1 << 20)
        return VVec([BV(bv64(0), 64) for _ in range(n)])
    if el in ('0u8', '0'):
        c = x.tobv(cnt_v)
        s = z3.simplify(c.t)
        if z3.is_bv_value(s) and s.as_long() <= 4096:
            return Buffer([Bytes([0] * s.as_long())])
        return Buffer([Zeros(c.t)])
    n = x.concrete_index(cnt_v, 1 << 20)
    if el == 'Vec::new()':
        return VVec([Buffer([]) for _ in range(n)])
    raise Unsupported('vec! %s' % raw)


def fmt(x, e, env):
    """format!: concrete strings stay opaque-ish PStr; symbolic-string mode builds a VStr."""
    args = e['args'] or []
    if not args or args[0].get('t') != 'str':
        return PStr('<fmt>')
    f = args[0]['v']
    vals = [x.eval(a, env) for a in args[1:]]
    if not getattr(x, 'symbolic_strings', False):
        # concrete rendering when every argument is concrete; else an opaque message
        out = []
        ai = 0
        i = 0
        ok = True
        while i < len(f):
            if f.startswith('{{', i):
                out.append('{'); i += 2; continue
            if f.startswith('}}', i):
                out.append('}'); i += 2; continue
            if f[i] == '{':
                j = f.index('}', i)
                spec = f[i + 1:j]
                if ai >= len(vals):
                    ok = False
                    break
                v = x.deref(vals[ai]); ai += 1
                if isinstance(v, PStr) and spec in ('', ':?'):
                    out.append(v.v if spec == '' else repr(v.v))
                elif isinstance(v, (BV, IntLit)) and spec == '':
                    c = v.v if isinstance(v, IntLit) else x.concretize(v.t)
                    if c is None:
                        ok = False
                        break
                    out.append(str(c))
                else:
                    ok = False
                    break
                i = j + 1
                continue
            out.append(f[i]); i += 1
        if ok:
            return PStr(''.join(out))
        # keep the literal prefix so that `contains("io_uring init failed")` style checks work
        return PStr(f.split('{')[0] + '<fmt>')
    out = []
    ai = 0
    i = 0
    while i < len(f):
        if f[i] == '{':
            j = f.index('}', i)
            spec = f[i + 1:j]
            v = x.deref(vals[ai]); ai += 1
            out.extend(display(x, v, spec))
            i = j + 1
        else:
            out.append(z3.IntVal(ord(f[i]))); i += 1
    return VStr(out)


def display(x, v, spec=''):
    if isinstance(v, VStr):
        return list(v.c)
    if isinstance(v, PStr):
        return [z3.IntVal(ord(c)) for c in v.v]
    if isinstance(v, CharV):
        return [v.t]
    if isinstance(v, IntU) and spec == '':
        k = 1 + x.choose(20, 'digits')
        ds = [x.symint('d') for _ in range(k)]
        for d in ds:
            x.solver.add(d >= 0, d <= 9)
        if k > 1:
            x.solver.add(ds[0] != 0)
        x.solver.add(v.t == sum(ds[i] * 10 ** (k - 1 - i) for i in range(k)))
        if not x.sat():
            raise PathEnd()
        return [d + 48 for d in ds]
    if isinstance(v, (IntU, BV)) and spec == ':x':
        # lower-case hex of an opaque 64-bit value: 1..16 hex digits, only the alphabet matters
        k = 1 + x.choose(16, 'hexdigits')
        ds = [x.symint('h') for _ in range(k)]
        for d in ds:
            x.solver.add(z3.Or(z3.And(d >= 48, d <= 57), z3.And(d >= 97, d <= 102)))
        return ds
    raise Unsupported('display %r spec %r' % (type(v), spec))


# ============================================================================ generic method models
def m_lock(mode):
    def f(x, r, a, e):
        hook = getattr(x, 'on_acquire', None)
        if hook:
            hook(r, mode)
        if r.poisoned:
            return Err(Struct('PoisonError', {}))
        return Ok(Guard(r, mode))
    return f


def m_map_err(x, r, a, e):
    r = x.deref(r)
    if r.variant in ('Ok',):
        return r
    return Err(x.call_closure(a[0], [r.f[0]]))


def m_ok(x, r, a, e):
    r = x.deref(r)
    return Some(r.f[0]) if r.variant == 'Ok' else NONE


def m_err(x, r, a, e):
    r = x.deref(r)
    return Some(r.f[0]) if r.variant == 'Err' else NONE


def variant_is(*names):
    return lambda x, r, a, e: x.deref(r).variant in names


def m_unwrap(x, r, a, e):
    r = x.deref(r)
    if r.variant in ('Some', 'Ok'):
        return r.f[0]
    raise Panic('unwrap/expect on %s line %s' % (r.variant, e.get('line')))


def m_unwrap_or(x, r, a, e):
    r = x.deref(r)
    return r.f[0] if r.variant in ('Some', 'Ok') else a[0]


def m_unwrap_or_else(x, r, a, e):
    r = x.deref(r)
    if r.variant in ('Some', 'Ok'):
        return r.f[0]
    return x.call_closure(a[0], [] if r.variant == 'None' else [r.f[0]])


def m_unwrap_or_default(x, r, a, e):
    r = x.deref(r)
    if r.variant in ('Some', 'Ok'):
        return r.f[0]
    hint = getattr(x, 'default_hint', None)
    return hint(e) if hint else VMap()


def m_as_ref(x, r, a, e):
    return r


def m_cloned(x, r, a, e):
    r0 = x.deref(r)
    if isinstance(r0, IterV):
        return IterV([x.clone(i) for i in r0.items])
    return Some(x.clone(r0.f[0])) if r0.variant == 'Some' else r0


def m_clone(x, r, a, e):
    return x.clone(r)


def m_map_get(x, r, a, e):
    k = x.mapkey(a[0])
    return Some(CellRef(r.d, k)) if k in r.d else NONE


def m_map_insert(x, r, a, e):
    k = x.mapkey(a[0])
    old = r.d.get(k)
    r.d[k] = a[1]
    return Some(old) if old is not None else NONE


def m_map_remove(x, r, a, e):
    k = x.mapkey(a[0])
    if k in r.d:
        return Some(r.d.pop(k))
    return NONE


def m_map_contains(x, r, a, e):
    return x.mapkey(a[0]) in r.d


def m_map_entry(x, r, a, e):
    return EntryV(r, x.mapkey(a[0]))


def m_or_insert_with(x, r, a, e):
    if r.k not in r.m.d:
        r.m.d[r.k] = x.call_closure(a[0], [])
    return CellRef(r.m.d, r.k)


def m_or_insert(x, r, a, e):
    if r.k not in r.m.d:
        r.m.d[r.k] = a[0]
    return CellRef(r.m.d, r.k)


def m_or_default(x, r, a, e):
    if r.k not in r.m.d:
        hint = getattr(x, 'default_hint', None)
        r.m.d[r.k] = hint(e) if hint else VVec([])
    return CellRef(r.m.d, r.k)


def m_to_string(x, r, a, e):
    r0 = x.deref(r)
    if isinstance(r0, (PStr, VStr)):
        return r0
    if isinstance(r0, BV):
        c = x.concretize(r0.t)
        if c is not None:
            return PStr(str(c))
        return PStr('<num>')
    if isinstance(r0, IntU):
        return VStr(display(x, r0))
    if isinstance(r0, Struct) and r0.name == 'IoError':
        return r0.f.get('msg', PStr('<err>'))
    raise Unsupported('to_string of %r' % type(r0))


def m_len(x, r, a, e):
    r = x.deref(r)
    if isinstance(r, VVec):
        return BV(bv64(len(r.items)), 64)
    if isinstance(r, Buffer):
        return x.buf_len(r)
    if isinstance(r, PStr):
        return BV(bv64(len(r.v.encode())), 64)
    if isinstance(r, VMap):
        return BV(bv64(len(r.d)), 64)
    if isinstance(r, VSet):
        return BV(bv64(len(r.items)), 64)
    if isinstance(r, VStr):
        return BV(bv64(len(r.c)), 64)
    if isinstance(r, IterV):
        return BV(bv64(len(r.items)), 64)
    raise Unsupported('len of %r' % type(r))


def m_is_empty(x, r, a, e):
    r = x.deref(r)
    if isinstance(r, VVec):
        return len(r.items) == 0
    if isinstance(r, Buffer):
        return x.buf_len(r).t == 0
    if isinstance(r, PStr):
        return len(r.v) == 0
    if isinstance(r, VStr):
        return len(r.c) == 0
    if isinstance(r, VMap):
        return len(r.d) == 0
    if isinstance(r, VSet):
        return len(r.items) == 0
    raise Unsupported('is_empty of %r' % type(r))


def m_push(x, r, a, e):
    x.deref(r).items.append(a[0])
    return UNIT


def m_pop(x, r, a, e):
    r = x.deref(r)
    return Some(r.items.pop()) if r.items else NONE


def m_iter(x, r, a, e):
    return IterV(x.to_iter(r))


def m_enumerate(x, r, a, e):
    return IterV([(BV(bv64(i), 64), v) for i, v in enumerate(r.items)])


def m_find(x, r, a, e):
    for it in r.items:
        if x.branch(x.call_closure(a[0], [it])):
            return Some(it)
    return NONE


def m_map(x, r, a, e):
    if isinstance(r, IterV):
        return IterV([x.call_closure(a[0], [it]) for it in r.items])
    r0 = x.deref(r)
    if isinstance(r0, EnumV):
        if r0.variant == 'Some':
            return Some(x.call_closure(a[0], [r0.f[0]]))
        if r0.variant == 'Ok':
            return Ok(x.call_closure(a[0], [r0.f[0]]))
        return r0
    if isinstance(r0, (VStr,)):
        return IterV([x.call_closure(a[0], [CharV(c)]) for c in r0.c])
    raise Unsupported('map on %r' % type(r0))


def m_filter(x, r, a, e):
    return IterV([it for it in r.items if x.branch(x.call_closure(a[0], [it]))])


def m_collect(x, r, a, e):
    items = list(r.items)
    tf = (e.get('turbofish') or '')
    hint = getattr(x, 'collect_hint', None)
    if hint:
        h = hint(e, items)
        if h is not None:
            return h
    if (items and all(isinstance(i, CharV) for i in items)) or 'String' in tf or (x.type_hint or '') == 'String':
        return VStr([i.t for i in items])
    if items and all(isinstance(i, Buffer) for i in items) and 'Vec<Vec' not in tf and False:
        return VVec(items)
    return VVec(items)


def m_sum(x, r, a, e):
    t = None
    for it in r.items:
        t = x.deref(it) if t is None else x.binop('+', t, it)
    if t is None:
        return BV(bv64(0), 64)
    return t


def m_min(x, r, a, e):
    p, q = x.coerce(r, a[0])
    return BV(z3.If(z3.ULE(p.t, q.t), p.t, q.t), p.bits)


def m_max(x, r, a, e):
    p, q = x.coerce(r, a[0])
    return BV(z3.If(z3.UGE(p.t, q.t), p.t, q.t), p.bits)


def m_saturating_add(x, r, a, e):
    p, q = x.coerce(r, a[0])
    s = p.t + q.t
    return BV(z3.If(z3.ULT(s, p.t), z3.BitVecVal(2 ** p.bits - 1, p.bits), s), p.bits)


def m_saturating_sub(x, r, a, e):
    p, q = x.coerce(r, a[0])
    return BV(z3.If(z3.ULT(p.t, q.t), z3.BitVecVal(0, p.bits), p.t - q.t), p.bits)


def m_wrapping_add(x, r, a, e):
    p, q = x.coerce(r, a[0])
    return BV(p.t + q.t, p.bits)


def m_wrapping_sub(x, r, a, e):
    p, q = x.coerce(r, a[0])
    return BV(p.t - q.t, p.bits)


def m_wrapping_mul(x, r, a, e):
    p, q = x.coerce(r, a[0])
    return BV(p.t * q.t, p.bits)


def m_checked_add(x, r, a, e):
    p, q = x.coerce(r, a[0])
    s = p.t + q.t
    if x.branch(z3.ULT(s, p.t)):
        return NONE
    return Some(BV(s, p.bits))


def m_checked_sub(x, r, a, e):
    p, q = x.coerce(r, a[0])
    if x.branch(z3.ULT(p.t, q.t)):
        return NONE
    return Some(BV(p.t - q.t, p.bits))


def m_atomic_load(x, r, a, e):
    hook = getattr(x, 'on_atomic', None)
    if hook:
        hook(r)
    return r.v


def m_atomic_store(x, r, a, e):
    hook = getattr(x, 'on_atomic', None)
    if hook:
        hook(r)
    r.v = a[0]
    return UNIT


def m_atomic_swap(x, r, a, e):
    old = r.v
    r.v = a[0]
    return old


def m_cas(x, r, a, e):
    hook = getattr(x, 'on_atomic', None)
    if hook:
        hook(r)
    eq = x.binop('==', r.v, a[0])
    if x.branch(eq):
        old = r.v
        r.v = a[1]
        return Ok(old)
    return Err(r.v)


def m_fetch_add(x, r, a, e):
    old = x.tobv(r.v, r.bits or 64)
    r.v = BV(z3.simplify(old.t + x.tobv(a[0], old.bits).t), old.bits)
    return old


def m_fetch_sub(x, r, a, e):
    old = x.tobv(r.v, r.bits or 64)
    r.v = BV(z3.simplify(old.t - x.tobv(a[0], old.bits).t), old.bits)
    return old


def m_extend_from_slice(x, r, a, e):
    r = x.deref(r)
    src = x.deref(a[0])
    if type(src).__name__ == 'SmallBytes':
        r.chunks.append(src)          # serialised map copied into an aligned buffer stays one opaque object
        return UNIT
    if isinstance(r, Buffer):
        r.chunks.extend(src.chunks)
    elif isinstance(src, Buffer) and not r.items:
        r.buf = Buffer(list(src.chunks))      # an untyped empty Vec turns out to be a Vec<u8>
    else:
        r.items.extend(src.items)
    return UNIT


def m_to_vec(x, r, a, e):
    r0 = x.deref(r)
    if isinstance(r0, Buffer):
        return Buffer(list(r0.chunks))
    return x.clone(r0)


def m_clear(x, r, a, e):
    r = x.deref(r)
    if isinstance(r, Buffer):
        r.chunks = []
    elif isinstance(r, VMap):
        r.d.clear()
    else:
        r.items = []
    return UNIT


def m_and_then(x, r, a, e):
    r = x.deref(r)
    if r.variant in ('Some', 'Ok'):
        return x.call_closure(a[0], [r.f[0]])
    return r


def m_then(x, r, a, e):
    if x.branch(r):
        return Some(x.call_closure(a[0], []))
    return NONE


def m_flatten(x, r, a, e):
    r = x.deref(r)
    if isinstance(r, EnumV):
        return r.f[0] if r.variant == 'Some' else r
    raise Unsupported('flatten on %r' % type(r))


def m_iter_all(x, r, a, e):
    vals = [x.call_closure(a[0], [it]) for it in r.items]
    if all(isinstance(v, bool) for v in vals):
        return all(vals)
    return z3.And([v if not isinstance(v, bool) else z3.BoolVal(v) for v in vals])


def m_iter_any(x, r, a, e):
    vals = [x.call_closure(a[0], [it]) for it in r.items]
    if all(isinstance(v, bool) for v in vals):
        return any(vals)
    return z3.Or([v if not isinstance(v, bool) else z3.BoolVal(v) for v in vals])


def m_position(x, r, a, e):
    for i, it in enumerate(r.items):
        if x.branch(x.call_closure(a[0], [it])):
            return Some(BV(bv64(i), 64))
    return NONE


def m_take_n(x, r, a, e):
    n = x.concrete_index(a[0], len(r.items))
    return IterV(r.items[:n])


def m_skip_n(x, r, a, e):
    n = x.concrete_index(a[0], len(r.items))
    return IterV(r.items[n:])


def m_vec_get(x, r, a, e):
    r = x.deref(r)
    n = len(r.items)
    k = x.concrete_index(a[0], n)
    if k < n:
        return Some(r.items[k])
    return NONE


def m_set_insert(x, r, a, e):
    k = x.mapkey(a[0])
    if k in r.items:
        return False
    r.items.append(k)
    return True


def m_set_contains(x, r, a, e):
    return x.mapkey(a[0]) in r.items


def m_sort(x, r, a, e):
    r = x.deref(r)
    r.items.sort(key=lambda p: p.v)
    return UNIT


def m_send(x, r, a, e):
    ch = x.deref(r)
    ch.q.append(a[0])
    ch.sent.append(a[0])
    return Ok(UNIT)


def m_try_recv(x, r, a, e):
    ch = x.deref(r)
    if ch.q:
        return Ok(ch.q.pop(0))
    return Err(ConstV('TryRecvError::Empty'))


def m_once_get_or_init(x, r, a, e):
    if r.v is None:
        r.v = x.call_closure(a[0], [])
    return r.v


def m_once_set(x, r, a, e):
    if r.v is None:
        r.v = a[0]
        return Ok(UNIT)
    return Err(a[0])


def ident(x, r, a, e):
    return r


# ---- strings (concrete PStr)
def m_pstr_contains(x, r, a, e):
    return x.deref(a[0]).v in r.v


def m_pstr_ends_with(x, r, a, e):
    return r.v.endswith(x.deref(a[0]).v)


def m_pstr_starts_with(x, r, a, e):
    return r.v.startswith(x.deref(a[0]).v)


# ---- strings (symbolic VStr)
def m_chars(x, r, a, e):
    r = x.to_vstr(r)
    return IterV([CharV(c) for c in r.c])


def m_is_ascii_alphanumeric(x, r, a, e):
    c = r.t
    return z3.Or(z3.And(c >= 48, c <= 57), z3.And(c >= 65, c <= 90), z3.And(c >= 97, c <= 122))


def m_is_ascii_digit(x, r, a, e):
    c = r.t
    return z3.And(c >= 48, c <= 57)


def m_trim_matches(x, r, a, e):
    r = x.to_vstr(r)
    ch = a[0].t
    s = list(r.c)
    while s and x.branch(s[0] == ch):
        s = s[1:]
    while s and x.branch(s[-1] == ch):
        s = s[:-1]
    return VStr(s)


def m_vstr_rsplitn(x, r, a, e):
    n = a[0].v if isinstance(a[0], IntLit) else x.concrete_index(a[0], 4)
    pat = x.to_vstr(a[1]).c
    s = x.to_vstr(r).c
    if n != 2:
        raise Unsupported('rsplitn(%d)' % n)
    for p in range(len(s) - len(pat), -1, -1):
        cond = z3.And([s[p + j] == pat[j] for j in range(len(pat))])
        if x.branch(cond):
            return IterV([VStr(s[p + len(pat):]), VStr(s[:p])])
    return IterV([VStr(s)])


def m_vstr_splitn(x, r, a, e):
    n = a[0].v if isinstance(a[0], IntLit) else x.concrete_index(a[0], 8)
    pat = a[1]
    patc = [pat.t] if isinstance(pat, CharV) else x.to_vstr(pat).c
    s = x.to_vstr(r).c
    out = []
    start = 0
    p = 0
    while len(out) < n - 1 and p + len(patc) <= len(s):
        cond = z3.And([s[p + j] == patc[j] for j in range(len(patc))])
        if x.branch(cond):
            out.append(VStr(s[start:p]))
            p += len(patc)
            start = p
        else:
            p += 1
    out.append(VStr(s[start:]))
    return IterV(out)


def m_vstr_strip_prefix(x, r, a, e):
    pat = x.to_vstr(a[0]).c
    s = x.to_vstr(r).c
    if len(s) < len(pat):
        return NONE
    if x.branch(z3.And([s[j] == pat[j] for j in range(len(pat))]) if pat else True):
        return Some(VStr(s[len(pat):]))
    return NONE


def m_vstr_parse(x, r, a, e):
    tf = e.get('turbofish') or ''
    hint = getattr(x, 'parse_hint', None)
    ty = 'u64' if 'u64' in tf else (hint(e) if hint else None)
    if ty != 'u64':
        raise Unsupported('parse::<%s>' % tf)
    s = x.to_vstr(r).c
    if len(s) == 0:
        return Err(PStr('empty'))
    start = 0
    if x.branch(s[0] == 43):
        start = 1
        if len(s) == 1:
            return Err(PStr('invalid'))
    for c in s[start:]:
        if not x.branch(z3.And(c >= 48, c <= 57)):
            return Err(PStr('invalid digit'))
    k = len(s) - start
    val = sum((s[start + i] - 48) * 10 ** (k - 1 - i) for i in range(k))
    if x.branch(val <= 2 ** 64 - 1):
        return Ok(IntU(val))
    return Err(PStr('overflow'))


def m_iter_next(x, r, a, e):
    if r.items:
        return Some(r.items.pop(0))
    return NONE


def m_iter_rev(x, r, a, e):
    return IterV(list(reversed(r.items)))


def m_iter_last(x, r, a, e):
    return Some(r.items[-1]) if r.items else NONE


def m_iter_count(x, r, a, e):
    return BV(bv64(len(r.items)), 64)


def m_vstr_as_bytes(x, r, a, e):
    return r


def m_as_str(x, r, a, e):
    return r


def m_as_deref(x, r, a, e):
    return r


def m_get_unsafecell(x, r, a, e):
    return PtrCell(r.cell)


def m_deserialize(x, r, a, e):
    return Ok(r)


def m_io_kind(x, r, a, e):
    return r.f['kind']


def m_copied(x, r, a, e):
    r0 = x.deref(r)
    if isinstance(r0, EnumV) and r0.variant == 'Some':
        return Some(x.deref(r0.f[0]))
    return r0


def m_iter_copied(x, r, a, e):
    return IterV([x.deref(i) for i in r.items])


def m_drain(x, r, a, e):
    r0 = x.deref(r)
    if isinstance(r0, VSet):
        items = [x.unkey(k) for k in r0.items]
        r0.items = []
        return IterV(items)
    items = list(r0.items)
    r0.items = []
    return IterV(items)


def m_try_into(x, r, a, e):
    return Ok(r)


def m_swap(x, r, a, e):
    raise Unsupported('swap')


METHODS = {
    ('Lock', 'read'): m_lock('read'), ('Lock', 'write'): m_lock('write'), ('Lock', 'lock'): m_lock('write'),
    ('*', 'map_err'): m_map_err, ('*', 'ok'): m_ok, ('*', 'err'): m_err,
    ('*', 'is_some'): variant_is('Some'), ('*', 'is_none'): variant_is('None'),
    ('*', 'is_err'): variant_is('Err'), ('*', 'is_ok'): variant_is('Ok'),
    ('*', 'unwrap'): m_unwrap, ('*', 'expect'): m_unwrap, ('*', 'unwrap_or'): m_unwrap_or,
    ('*', 'unwrap_or_else'): m_unwrap_or_else, ('*', 'unwrap_or_default'): m_unwrap_or_default,
    ('*', 'as_ref'): m_as_ref, ('*', 'as_mut'): m_as_ref, ('*', 'cloned'): m_cloned, ('*', 'clone'): m_clone,
    ('*', 'copied'): m_copied, ('*', 'as_deref'): m_as_deref, ('*', 'as_str'): m_as_str, ('*', 'borrow'): ident,
    ('*', 'to_owned'): m_clone, ('*', 'into'): ident, ('*', 'as_slice'): ident, ('*', 'as_mut_slice'): ident,
    ('*', 'to_string_lossy'): ident, ('*', 'into_owned'): ident, ('*', 'as_bytes'): m_vstr_as_bytes,
    ('VMap', 'get'): m_map_get, ('VMap', 'get_mut'): m_map_get, ('VMap', 'insert'): m_map_insert,
    ('VMap', 'entry'): m_map_entry, ('VMap', 'remove'): m_map_remove, ('VMap', 'contains_key'): m_map_contains,
    ('VMap', 'iter'): m_iter, ('VMap', 'into_iter'): m_iter, ('VMap', 'keys'): lambda x, r, a, e: IterV([x.unkey(k) for k in r.d]),
    ('VMap', 'values'): lambda x, r, a, e: IterV(list(r.d.values())),
    ('EntryV', 'or_insert_with'): m_or_insert_with, ('EntryV', 'or_insert'): m_or_insert, ('EntryV', 'or_default'): m_or_default,
    ('*', 'to_string'): m_to_string, ('*', 'len'): m_len, ('*', 'is_empty'): m_is_empty,
    ('*', 'push'): m_push, ('VVec', 'pop'): m_pop, ('*', 'iter'): m_iter, ('*', 'iter_mut'): m_iter, ('*', 'into_iter'): m_iter,
    ('IterV', 'enumerate'): m_enumerate, ('IterV', 'find'): m_find, ('IterV', 'filter'): m_filter,
    ('*', 'map'): m_map, ('IterV', 'collect'): m_collect, ('IterV', 'sum'): m_sum,
    ('IterV', 'all'): m_iter_all, ('IterV', 'any'): m_iter_any, ('IterV', 'position'): m_position,
    ('IterV', 'take'): m_take_n, ('IterV', 'skip'): m_skip_n, ('IterV', 'copied'): m_iter_copied, ('IterV', 'cloned'): m_cloned,
    ('IterV', 'next'): m_iter_next, ('IterV', 'rev'): m_iter_rev, ('IterV', 'last'): m_iter_last, ('IterV', 'count'): m_iter_count,
    ('*', 'min'): m_min, ('*', 'max'): m_max, ('*', 'saturating_add'): m_saturating_add, ('*', 'saturating_sub'): m_saturating_sub,
    ('*', 'wrapping_add'): m_wrapping_add, ('*', 'wrapping_sub'): m_wrapping_sub, ('*', 'wrapping_mul'): m_wrapping_mul,
    ('*', 'checked_add'): m_checked_add, ('*', 'checked_sub'): m_checked_sub, ('*', 'and_then'): m_and_then,
    ('bool', 'then'): m_then, ('BoolRef', 'then'): m_then, ('EnumV', 'flatten'): m_flatten,
    ('Atomic', 'load'): m_atomic_load, ('Atomic', 'store'): m_atomic_store, ('Atomic', 'swap'): m_atomic_swap,
    ('Atomic', 'compare_exchange'): m_cas, ('Atomic', 'compare_exchange_weak'): m_cas,
    ('Atomic', 'fetch_add'): m_fetch_add, ('Atomic', 'fetch_sub'): m_fetch_sub,
    ('Chan', 'send'): m_send, ('Chan', 'try_recv'): m_try_recv,
    ('OnceLockV', 'get_or_init'): m_once_get_or_init, ('OnceLockV', 'set'): m_once_set,
    ('OnceLockV', 'get'): lambda x, r, a, e: Some(r.v) if r.v is not None else NONE,
    ('VVec', 'get'): m_vec_get, ('VVec', 'sort'): m_sort, ('VVec', 'drain'): m_drain, ('VVec', 'first'): lambda x, r, a, e: Some(r.items[0]) if r.items else NONE,
    ('VVec', 'last'): lambda x, r, a, e: Some(r.items[-1]) if r.items else NONE,
    ('VSet', 'insert'): m_set_insert, ('VSet', 'contains'): m_set_contains, ('VSet', 'drain'): m_drain,
    ('VSet', 'iter'): m_iter, ('VSet', 'into_iter'): m_iter,
    ('PStr', 'contains'): m_pstr_contains, ('PStr', 'ends_with'): m_pstr_ends_with, ('PStr', 'starts_with'): m_pstr_starts_with,
    ('PStr', 'to_str'): lambda x, r, a, e: Some(r),
    ('VStr', 'chars'): m_chars, ('VStr', 'trim_matches'): m_trim_matches, ('VStr', 'rsplitn'): m_vstr_rsplitn,
    ('VStr', 'splitn'): m_vstr_splitn, ('VStr', 'strip_prefix'): m_vstr_strip_prefix, ('VStr', 'parse'): m_vstr_parse,
    ('CharV', 'is_ascii_alphanumeric'): m_is_ascii_alphanumeric, ('CharV', 'is_ascii_digit'): m_is_ascii_digit,
    ('*', 'extend_from_slice'): m_extend_from_slice, ('*', 'to_vec'): m_to_vec, ('*', 'clear'): m_clear,
    ('Struct:Metadata', 'deserialize'): m_deserialize,
    ('UnsafeCellV', 'get'): m_get_unsafecell,
    ('Struct:IoError', 'kind'): m_io_kind,
    ('*', 'try_into'): m_try_into,
    ('Buffer', 'as_ptr'): ident, ('Buffer', 'as_mut_ptr'): ident,
}


# ============================================================================ function models
def f_noop(x, a, e):
    return UNIT


def f_ioerr(x, a, e):
    return Struct('IoError', {'kind': a[0], 'msg': x.deref(a[1]) if len(a) > 1 else PStr('')})


def f_drop(x, a, e):
    v = a[0]
    if isinstance(v, Guard):
        x.release_guard(v)
    return UNIT


def f_usize_try_from(x, a, e):
    return Ok(a[0])


def f_from_le_bytes(bits):
    def f(x, a, e):
        b = x.buf_items(x.deref(a[0]))
        t = z3.Concat(*[x.tobv(v, 8).t for v in reversed(b)])
        return BV(t, bits)
    return f


def f_mem_swap(x, a, e):
    p, q = a
    if isinstance(p, PtrCell) and isinstance(q, PtrCell):
        p.cell.v, q.cell.v = q.cell.v, p.cell.v
        return UNIT
    pa, qa = x.deref(p), x.deref(q)
    if isinstance(pa, VMap) and isinstance(qa, VMap):
        pa.d, qa.d = qa.d, pa.d
        return UNIT
    raise Unsupported('mem::swap')


FNS = {
    'Arc::new': lambda x, a, e: Arc(a[0]), 'Box::new': lambda x, a, e: a[0],
    'RwLock::new': lambda x, a, e: Lock(a[0]), 'Mutex::new': lambda x, a, e: Lock(a[0]),
    'Vec::new': lambda x, a, e: VVec([]), 'HashMap::new': lambda x, a, e: VMap(), 'HashSet::new': lambda x, a, e: VSet(),
    'BTreeMap::new': lambda x, a, e: VMap(), 'String::new': lambda x, a, e: PStr(''),
    'Vec::with_capacity': lambda x, a, e: VVec([]),
    'HashMap::with_capacity': lambda x, a, e: VMap(),
    'AtomicBool::new': lambda x, a, e: Atomic(a[0]), 'AtomicU16::new': lambda x, a, e: Atomic(x.tobv(a[0], 16), 16),
    'AtomicU64::new': lambda x, a, e: Atomic(x.tobv(a[0], 64), 64), 'AtomicU32::new': lambda x, a, e: Atomic(x.tobv(a[0], 32), 32),
    'AtomicUsize::new': lambda x, a, e: Atomic(x.tobv(a[0], 64), 64),
    'OnceLock::new': lambda x, a, e: OnceLockV(), 'UnsafeCell::new': lambda x, a, e: UnsafeCellV(a[0]),
    'io::Error::new': f_ioerr, 'std::io::Error::new': f_ioerr, 'drop': f_drop,
    'usize::try_from': f_usize_try_from, 'u64::try_from': f_usize_try_from,
    'u32::from_le_bytes': f_from_le_bytes(32), 'u64::from_le_bytes': f_from_le_bytes(64),
    'u64::from_be_bytes': lambda x, a, e: x.symbv('be'),
    'std::hint::spin_loop': f_noop, 'std::mem::swap': f_mem_swap, 'mem::swap': f_mem_swap,
    'Arc::clone': lambda x, a, e: x.clone(a[0]),
    'Duration::from_millis': lambda x, a, e: a[0], 'Duration::from_secs': lambda x, a, e: a[0],
    'thread::sleep': f_noop, 'std::thread::sleep': f_noop,
    'PathBuf::from': lambda x, a, e: a[0], 'Path::new': lambda x, a, e: a[0],
    'String::from': lambda x, a, e: a[0],
}



# ---- more str methods over code-point vectors (patterns: &str or char)
def _pat(x, p):
    p = x.deref(p)
    if isinstance(p, CharV):
        return [p.t]
    return list(x.to_vstr(p).c)


def _match_at(s, i, pat):
    if i + len(pat) > len(s):
        return False
    if not pat:
        return True
    return z3.And([s[i + j] == pat[j] for j in range(len(pat))])


def _find(x, s, pat, reverse=False):
    """index of the first (last) match, forking; None if no match"""
    rng = range(len(s) - len(pat), -1, -1) if reverse else range(0, len(s) - len(pat) + 1)
    for i in rng:
        if x.branch(_match_at(s, i, pat)):
            return i
    return None


def m_split_once(x, r, a, e):
    s = x.to_vstr(r).c
    pat = _pat(x, a[0])
    i = _find(x, s, pat)
    if i is None:
        return NONE
    return Some((VStr(s[:i]), VStr(s[i + len(pat):])))


def m_rsplit_once(x, r, a, e):
    s = x.to_vstr(r).c
    pat = _pat(x, a[0])
    i = _find(x, s, pat, reverse=True)
    if i is None:
        return NONE
    return Some((VStr(s[:i]), VStr(s[i + len(pat):])))


def m_trim_start_matches(x, r, a, e):
    s = list(x.to_vstr(r).c)
    pat = _pat(x, a[0])
    if not pat:
        return VStr(s)
    while len(s) >= len(pat) and x.branch(_match_at(s, 0, pat)):
        s = s[len(pat):]
    return VStr(s)


def m_trim_end_matches(x, r, a, e):
    s = list(x.to_vstr(r).c)
    pat = _pat(x, a[0])
    if not pat:
        return VStr(s)
    while len(s) >= len(pat) and x.branch(_match_at(s, len(s) - len(pat), pat)):
        s = s[:len(s) - len(pat)]
    return VStr(s)


def m_strip_suffix(x, r, a, e):
    s = x.to_vstr(r).c
    pat = _pat(x, a[0])
    if len(s) < len(pat):
        return NONE
    if x.branch(_match_at(s, len(s) - len(pat), pat)):
        return Some(VStr(s[:len(s) - len(pat)]))
    return NONE


def m_vstr_starts_with(x, r, a, e):
    return _match_at(x.to_vstr(r).c, 0, _pat(x, a[0]))


def m_vstr_ends_with(x, r, a, e):
    s = x.to_vstr(r).c
    pat = _pat(x, a[0])
    if len(s) < len(pat):
        return False
    return _match_at(s, len(s) - len(pat), pat)


def m_vstr_contains(x, r, a, e):
    s = x.to_vstr(r).c
    pat = _pat(x, a[0])
    alts = [_match_at(s, i, pat) for i in range(0, len(s) - len(pat) + 1)]
    alts = [al for al in alts if al is not False]
    if not alts:
        return False
    if any(al is True for al in alts):
        return True
    return z3.Or(alts)


def m_vstr_find(x, r, a, e):
    i = _find(x, x.to_vstr(r).c, _pat(x, a[0]))
    return NONE if i is None else Some(BV(bv64(i), 64))


def m_vstr_rfind(x, r, a, e):
    i = _find(x, x.to_vstr(r).c, _pat(x, a[0]), reverse=True)
    return NONE if i is None else Some(BV(bv64(i), 64))


def m_vstr_split(x, r, a, e):
    s = x.to_vstr(r).c
    pat = _pat(x, a[0])
    out, start, p = [], 0, 0
    while p + len(pat) <= len(s) and pat:
        if x.branch(_match_at(s, p, pat)):
            out.append(VStr(s[start:p]))
            p += len(pat)
            start = p
        else:
            p += 1
    out.append(VStr(s[start:]))
    return IterV(out)


def m_vstr_rsplit(x, r, a, e):
    it = m_vstr_split(x, r, a, e)
    return IterV(list(reversed(it.items)))


def m_vstr_trim(x, r, a, e):
    ws = [9, 10, 11, 12, 13, 32]
    s = list(x.to_vstr(r).c)
    while s and x.branch(z3.Or([s[0] == w for w in ws])):
        s = s[1:]
    while s and x.branch(z3.Or([s[-1] == w for w in ws])):
        s = s[:-1]
    return VStr(s)


def m_vstr_splitn_generic(x, r, a, e):
    return m_vstr_splitn(x, r, a, e)


def m_vstr_rsplitn_generic(x, r, a, e):
    n = a[0].v if isinstance(a[0], IntLit) else x.concrete_index(a[0], 8)
    pat = _pat(x, a[1])
    s = x.to_vstr(r).c
    out = []
    end = len(s)
    p = len(s) - len(pat)
    while len(out) < n - 1 and p >= 0 and pat:
        if x.branch(_match_at(s, p, pat)):
            out.append(VStr(s[p + len(pat):end]))
            end = p
            p -= len(pat)
        else:
            p -= 1
    out.append(VStr(s[:end]))
    return IterV(out)


METHODS.update({
    ('VStr', 'split_once'): m_split_once, ('VStr', 'rsplit_once'): m_rsplit_once,
    ('VStr', 'trim_start_matches'): m_trim_start_matches, ('VStr', 'trim_end_matches'): m_trim_end_matches,
    ('VStr', 'strip_suffix'): m_strip_suffix, ('VStr', 'starts_with'): m_vstr_starts_with, ('VStr', 'ends_with'): m_vstr_ends_with,
    ('VStr', 'contains'): m_vstr_contains, ('VStr', 'find'): m_vstr_find, ('VStr', 'rfind'): m_vstr_rfind,
    ('VStr', 'split'): m_vstr_split, ('VStr', 'rsplit'): m_vstr_rsplit, ('VStr', 'trim'): m_vstr_trim,
    ('VStr', 'rsplitn'): m_vstr_rsplitn_generic,
})



# ---- Option / Result combinators
def m_opt_filter(x, r, a, e):
    r0 = x.deref(r)
    if isinstance(r0, IterV):
        return m_filter(x, r0, a, e)
    if r0.variant == 'Some' and x.branch(x.call_closure(a[0], [r0.f[0]])):
        return r0
    return NONE


def m_opt_or(x, r, a, e):
    r0 = x.deref(r)
    return r0 if r0.variant in ('Some', 'Ok') else a[0]


def m_opt_or_else(x, r, a, e):
    r0 = x.deref(r)
    if r0.variant in ('Some', 'Ok'):
        return r0
    return x.call_closure(a[0], [] if r0.variant == 'None' else [r0.f[0]])


def m_is_some_and(x, r, a, e):
    r0 = x.deref(r)
    if r0.variant in ('Some', 'Ok'):
        return x.call_closure(a[0], [r0.f[0]])
    return False


def m_map_or(x, r, a, e):
    r0 = x.deref(r)
    if r0.variant in ('Some', 'Ok'):
        return x.call_closure(a[1], [r0.f[0]])
    return a[0]


def m_map_or_else(x, r, a, e):
    r0 = x.deref(r)
    if r0.variant in ('Some', 'Ok'):
        return x.call_closure(a[1], [r0.f[0]])
    return x.call_closure(a[0], [] if r0.variant == 'None' else [r0.f[0]])


def m_ok_or(x, r, a, e):
    r0 = x.deref(r)
    return Ok(r0.f[0]) if r0.variant == 'Some' else Err(a[0])


def m_ok_or_else(x, r, a, e):
    r0 = x.deref(r)
    return Ok(r0.f[0]) if r0.variant == 'Some' else Err(x.call_closure(a[0], []))


def m_xor(x, r, a, e):
    p, q = x.deref(r), x.deref(a[0])
    if p.variant == 'Some' and q.variant == 'None':
        return p
    if p.variant == 'None' and q.variant == 'Some':
        return q
    return NONE


METHODS.update({
    ('EnumV', 'filter'): m_opt_filter, ('EnumV', 'or'): m_opt_or, ('EnumV', 'or_else'): m_opt_or_else,
    ('EnumV', 'is_some_and'): m_is_some_and, ('EnumV', 'is_ok_and'): m_is_some_and, ('EnumV', 'map_or'): m_map_or,
    ('EnumV', 'map_or_else'): m_map_or_else, ('EnumV', 'ok_or'): m_ok_or, ('EnumV', 'ok_or_else'): m_ok_or_else,
    ('EnumV', 'xor'): m_xor, ('EnumV', 'is_none_or'): lambda x, r, a, e: True if x.deref(r).variant == 'None' else x.call_closure(a[0], [x.deref(r).f[0]]),
})


def install(x):
    x.method_models.update(METHODS)
    x.fn_models.update(FNS)
