"""Driver `corrupt` (C11, engine-R part): a valid directory state produced by the engine is damaged (one header
replaced by an arbitrary well-formed / invalid / zeroed header, a truncated file, stray files, a damaged index),
then the real recovery and reads run. Oracle: no panic, loops terminate, every returned payload is an entry that
was appended to that topic."""
import z3

from .. import engine, envmodel
from ..values import *  # noqa: F401,F403
from .stream import parse_skel, minimise

DAMAGES = ['hdr_fields', 'hdr_size', 'hdr_invalid', 'hdr_len', 'hdr_zero', 'truncate', 'stray', 'index_garbage', 'index_empty']


def mk(docs, job, cfg):
    cfg = dict(cfg, **job.get('cfg', {}))
    x = engine.mk_exec(docs, cfg)
    skel = parse_skel(job['skel'])
    fd = job.get('backend', 'fd') == 'fd'
    sizecap = job.get('sizecap', 32 * 2 ** 20)
    conc = job.get('concrete')

    def driver(x):
        engine.new_world(x, fd_backend=fd)
        r = engine.open_walrus(x)
        w = r.f[0]
        vars_ = []
        sizes = []
        appended = {}     # topic -> [(uid, size)]
        headers = []      # (uid, topic, file model, header offset term)
        ops_out = []
        uid = 0
        consumed = {}
        for i, (kind, topic, n) in enumerate(skel):
            if kind in ('a', 'A'):
                ents = []
                for _ in range(n):
                    j = len(sizes)
                    s = BV(bv64(conc['sizes'][j]), 64) if conc else x.symbv('size%d' % j)
                    if not conc:
                        x.solver.add(z3.ULE(s.t, sizecap))
                    sizes.append(s)
                    vars_.append(('size%d' % j, s.t))
                    ents.append((uid, s, j))
                    uid += 1
                before = {p: len(f.extents) for p, f in x.fs.files.items() if isinstance(f, envmodel.FileModel)}
                if kind == 'a':
                    res = engine.api(x, w, 'append_for_topic', [PStr(topic), engine.payload(ents[0][0], ents[0][1].t)])
                else:
                    res = engine.api(x, w, 'batch_append_for_topic', [PStr(topic), VVec([engine.payload(u, s.t) for u, s, _ in ents])])
                ops_out.append(dict(op='append' if kind == 'a' else 'batch_append', topic=topic, entries=[dict(uid=u, len='size%d' % j) for u, s, j in ents]))
                if res.variant != 'Ok':
                    raise PathEnd()
                appended.setdefault(topic, []).extend((u, s) for u, s, _ in ents)
                # locate the headers just written: new 256-byte Bytes extents
                k = 0
                for p, f in x.fs.files.items():
                    if not isinstance(f, envmodel.FileModel):
                        continue
                    for off, c, _ in f.extents[before.get(p, 0):]:
                        if isinstance(c, Bytes) and len(c.b) == 256 and k < len(ents):
                            headers.append((ents[k][0], topic, f, off, p))
                            k += 1
            elif kind == 'n':
                res = engine.api(x, w, 'read_next', [PStr(topic), True])
                ops_out.append(dict(op='read_next', topic=topic, checkpoint=True))
                if res.variant == 'Ok' and x.deref(res.f[0]).variant == 'Some':
                    consumed[topic] = consumed.get(topic, 0) + 1
        # ---- clean shutdown, then damage
        engine.drop_value(x, w)
        envmodel.reset_process(x)
        ops_out.append(dict(op='close'))
        dmg = job.get('damage') or DAMAGES[x.choose(len(DAMAGES), 'damage')]
        wal_files = [p for p in x.fs.created_order if p in x.fs.files]
        desc = dict(kind=dmg)
        if dmg.startswith('hdr_'):
            if not headers:
                raise PathEnd()
            hi = job.get('entry', None)
            if hi is None:
                hi = x.choose(len(headers), 'which_header')
            huid, htopic, fm, hoff, hpath = headers[hi]
            desc.update(entry=huid, wal_index=wal_files.index(hpath))
            if dmg == 'hdr_fields':
                rs = x.symbv('bad_read_size')
                x.solver.add(z3.ULE(rs.t, 2 ** 32 - 1))
                owner = ['t', 'u', ''][x.choose(3, 'bad_owner')]
                m2 = Struct('Metadata', {'read_size': rs, 'owned_by': PStr(owner), 'next_block_start': x.symbv('bad_nbs'),
                                         'checksum': x.symbv('bad_checksum')})
                vars_.append(('bad_read_size', rs.t))
                n = 32
                hdr = Bytes([n & 0xff, n >> 8] + [('rkyv', m2, i) for i in range(n)] + [0] * (254 - n))
                desc.update(owner=owner, fields='read_size/checksum/owner arbitrary, archive well formed')
            elif dmg == 'hdr_size':
                # only read_size is damaged; owner, checksum and next_block_start keep their written values
                orig = None
                for off, c, _ in fm.extents:
                    if isinstance(c, Bytes) and len(c.b) == 256 and x.valid(off == hoff) and isinstance(c.b[2], tuple) and c.b[2][0] == 'rkyv':
                        orig = c.b[2][1]
                if orig is None:
                    raise PathEnd()
                rs = x.symbv('bad_read_size')
                x.solver.add(z3.ULE(rs.t, 2 ** 32 - 1), rs.t != x.tobv(orig.f['read_size']).t)
                vars_.append(('bad_read_size', rs.t))
                m2 = Struct('Metadata', dict(orig.f, read_size=rs))
                n = 32
                hdr = Bytes([n & 0xff, n >> 8] + [('rkyv', m2, i) for i in range(n)] + [0] * (254 - n))
            elif dmg == 'hdr_invalid':
                hdr = Bytes([32, 0] + [('garbage', None, i) for i in range(254)])
            elif dmg == 'hdr_len':
                lo = x.symbv('bad_len_lo', 8)
                hi_ = x.symbv('bad_len_hi', 8)
                vars_.append(('bad_len_lo', z3.ZeroExt(56, lo.t)))
                vars_.append(('bad_len_hi', z3.ZeroExt(56, hi_.t)))
                hdr = Bytes([lo, hi_] + [('garbage', None, i) for i in range(254)])
            else:
                hdr = Bytes([0] * 256)
            envmodel.file_write(x, fm, BV(hoff, 64), Buffer([hdr]), event=False)
            desc['offset_term'] = str(z3.simplify(hoff))
            desc['_hoff'] = hoff
        elif dmg == 'truncate':
            fi = x.choose(len(wal_files), 'which_file') if len(wal_files) > 1 else 0
            fm = x.fs.files[wal_files[fi]]
            nl = x.symbv('new_len')
            x.solver.add(z3.ULT(nl.t, fm.length))
            vars_.append(('new_len', nl.t))
            fm.length = nl.t
            # extents beyond the new length are gone
            fm.extents = [(o, c, k) for (o, c, k) in fm.extents if not x.valid(z3.UGE(o, nl.t))]
            desc.update(wal_index=fi)
            x.path_flags.add('truncated')
        elif dmg == 'stray':
            for name in ('zzz_notes.txt', 'read_offset_idx_index.db.tmp', '0000000000000'):
                p = engine.ROOT + '/' + name
                f = envmodel.FileModel(p)
                x.fs.files[p] = f
            desc.update(files=['zzz_notes.txt', 'read_offset_idx_index.db.tmp', '0000000000000'])
        elif dmg == 'index_garbage':
            p = engine.ROOT + '/read_offset_idx_index.db'
            x.fs.files[p] = envmodel.SmallFile(p, Buffer([Bytes([('garbage', None, i) for i in range(40)])]))
        elif dmg == 'index_empty':
            p = engine.ROOT + '/read_offset_idx_index.db'
            x.fs.files[p] = envmodel.SmallFile(p, None)

        def fail(kind, detail):
            wit = minimise(x, list(vars_)) if not conc else None
            d2 = dict(desc)
            if '_hoff' in d2:
                t = d2.pop('_hoff')
                if wit is not None and x.solver.check() == z3.sat:
                    d2['offset'] = x.solver.model().eval(t, model_completion=True).as_long()
            return dict(job=job, verdict='cex', kind=kind, detail=detail, damage=d2, witness=wit, ops=ops_out)
        # ---- reopen and read everything
        try:
            r = engine.open_walrus(x)
        except Panic as p:
            return fail('open-panic', 'Walrus::new panicked on the damaged directory: %s' % p)
        if r.variant != 'Ok':
            # refusing to open is allowed by the statement only if it is an error, not a crash
            return dict(job=job, verdict='ok', note='open returned Err', damage={k: v for k, v in desc.items() if not k.startswith('_')}, ops=ops_out,
                        witness=x.model_values(dict(vars_)) if not conc else None)
        w2 = r.f[0]
        for topic in sorted(set(appended) | {'u'}):
            for _ in range(len(appended.get(topic, [])) + 3):
                res = engine.api(x, w2, 'read_next', [PStr(topic), True])
                if res.variant == 'Panic':
                    return fail('read-panic', 'read_next(%s) panicked on the damaged directory: %s' % (topic, res.f[0]))
                if res.variant != 'Ok':
                    break
                o = x.deref(res.f[0])
                if o.variant != 'Some':
                    break
                en = o.f[0]
                conds = []
                okc = False
                for u, s in appended.get(topic, []):
                    eq = engine.entry_is(x, en, u, s.t)
                    if eq is True:
                        okc = True
                        break
                    if eq is not False:
                        conds.append(eq)
                if not okc:
                    none = z3.And([z3.Not(c) for c in conds]) if conds else True
                    if none is True or x.sat(none):
                        if none is not True:
                            x.solver.add(none)
                        return fail('foreign-payload', 'read_next(%s) returned %s, which was never appended to that topic' % (topic, engine.describe_entry(x, en)))
            res = engine.api(x, w2, 'batch_read_for_topic', [PStr(topic), BV(bv64(2 ** 64 - 1), 64), False, NONE])
            if res.variant == 'Panic':
                return fail('read-panic', 'batch_read_for_topic(%s) panicked on the damaged directory: %s' % (topic, res.f[0]))
        d2 = {k: v for k, v in desc.items() if not k.startswith('_')}
        wit = x.model_values(dict(vars_)) if not conc else None
        if '_hoff' in desc and wit is not None and x.solver.check() == z3.sat:
            d2['offset'] = x.solver.model().eval(desc['_hoff'], model_completion=True).as_long()
        return dict(job=job, verdict='ok', damage=d2, ops=ops_out, witness=wit)
    return x, driver
