"""Driver `stream`: histories of appends / reads / peeks / reopens on the real engine source, all sizes and
budgets symbolic. Oracles: C01 (exactly-once, in order, byte-identical, no skip), C03 (cap, budget, progress),
C15 (counts), C02 (peeks), C06 (restart invisible) — selected by cfg['oracles']."""
import z3

from .. import engine, envmodel
from ..values import *  # noqa: F401,F403

MAXU = 2 ** 64 - 1


def parse_skel(s):
    """'a,a:u,A2,n,b,B,p,P,o,c,R,X' -> list of (kind, topic, n)"""
    out = []
    for tok in s.split(','):
        tok = tok.strip()
        topic = 't'
        if ':' in tok:
            tok, topic = tok.split(':')
        n = 1
        if tok[0] == 'F' and len(tok) > 1:
            n = int(tok[1:])
            tok = 'F'
        elif tok[0] == 'A' and len(tok) > 1:
            # A3 = batch of 3; A3r = last entry oversize; A2L = long topic; A11G = total > 10 GiB
            suf = tok[-1] if tok[-1] in 'rLG' else ''
            n = int(tok[1:len(tok) - len(suf)])
            tok = 'A' + suf
        out.append((tok, topic, n))
    return out


def minimise(x, terms):
    """small witness: cap all sizes together, then all budgets, by a few solver queries; None if infeasible"""
    s = x.solver
    if s.check() != z3.sat:
        return None
    for prefix, caps in (('size', [512, 65536, 2 ** 20, 11 * 2 ** 20, 2 ** 25, 2 ** 27]), ('budget', [4096, 2 ** 20, 2 ** 25, 2 ** 31])):
        ts = [t for n, t in terms if n.startswith(prefix)]
        if not ts:
            continue
        for cap in caps:
            c = z3.And([z3.ULE(t, cap) for t in ts])
            if s.check(c) == z3.sat:
                s.add(c)
                break
    if s.check() != z3.sat:
        return None
    m = s.model()
    return {name: m.eval(t, model_completion=True).as_long() for name, t in terms}


def mk(docs, job, cfg):
    cfg = dict(cfg, **job.get('cfg', {}))
    x = engine.mk_exec(docs, cfg)
    skel = parse_skel(job['skel'])
    conc = job.get('concrete')          # {'sizes': [...], 'budgets': [...], 'offsets': [...]} -> concrete mode
    fd = job.get('backend', 'fd') == 'fd'
    consistency = job.get('consistency', 'StrictlyAtOnce')
    oracles = set(cfg.get('oracles', ['C01', 'C03', 'C15']))
    sizecap = job.get('sizecap', cfg.get('sizecap', engine.SIZECAP))

    def driver(x):
        engine.new_world(x, fd_backend=fd)
        pe = None
        if consistency == 'AtLeastOnce':
            pe = BV(z3.BitVecVal(job.get('persist_every', 1), 32), 32)
        r = engine.open_walrus(x, consistency, pe)
        if r.variant != 'Ok':
            raise Unsupported('open failed on an empty directory: %r' % (r,))
        w = r.f[0]
        vars_ = []          # (name, term) for witness extraction, sizes first
        sizes, budgets, offsets = [], [], []
        queues = {}         # topic -> list of (uid, size_term)
        delivered = {}      # topic -> count
        uid = 0
        last_peek = {}
        obs = []            # predicted observations, one per op
        ops_out = []        # replay script ops (sizes as var names)

        def fresh_size(oversize=False):
            i = len(sizes)
            if conc:
                s = BV(bv64(conc['sizes'][i]), 64)
            elif oversize:
                s = x.symbv('size%d' % i)
                x.solver.add(z3.UGT(s.t, 2 ** 30 - 256), z3.ULE(s.t, 2 ** 30 + 2 ** 20))
            else:
                s = x.symbv('size%d' % i)
                x.solver.add(z3.ULE(s.t, sizecap))
            sizes.append(s)
            vars_.append(('size%d' % i, s.t))
            return s

        def fail(kind, i, detail):
            terms = [(n, t) for n, t in vars_]
            wit = minimise(x, terms) if not conc else None
            return dict(job=job, verdict='cex', kind=kind, op_index=i, detail=detail, witness=wit, ops=ops_out, obs=obs,
                        flags=sorted(x.path_flags))

        for i, (kind, topic, n) in enumerate(skel):
            if topic == 'T':
                topic = 't' * job.get('topic_len', 240)     # ':T' = the long topic of this job
            q = queues.setdefault(topic, [])
            d = delivered.setdefault(topic, 0)
            if kind in ('a', 'A', 'r', 'L', 'Ar', 'AL', 'AG', 'F'):
                ents = []
                wtopic = topic
                if kind in ('L', 'AL'):
                    wtopic = topic * job.get('topic_len', 240)          # a long topic name (240: does not fit the 256-byte entry header)
                    queues.setdefault(wtopic, [])
                    delivered.setdefault(wtopic, 0)
                    q = queues[wtopic]
                for bi in range(n):
                    s = fresh_size(oversize=(kind == 'r' or (kind == 'Ar' and bi == n - 1)))
                    ents.append((uid, s))
                    uid += 1
                if kind == 'AG' and not conc:
                    tot = bv64(0)
                    for u_, s_ in ents:
                        tot = tot + s_.t + 256
                    x.solver.add(z3.UGT(tot, 10 * 2 ** 30))
                fault_desc = None
                if kind == 'F':
                    # one injected io_uring completion failure (the data reached the file, the completion reports -5)
                    fi = conc['fault_index'] if conc and 'fault_index' in conc else x.choose(n, 'fault_at_cqe%d' % i)
                    fault_desc = dict(kind='uring_cqe', nth=fi + 1)
                    x.fault_hook = lambda k, idx, fi=fi: ('neg_written' if k == 'uring_cqe' and idx == fi else None)
                if not kind.startswith('A') and kind != 'F':
                    res = engine.api(x, w, 'append_for_topic', [PStr(wtopic), engine.payload(ents[0][0], ents[0][1].t)])
                else:
                    res = engine.api(x, w, 'batch_append_for_topic', [PStr(wtopic), VVec([engine.payload(u, s.t) for u, s in ents])])
                x.fault_hook = None
                ops_out.append(dict(op='append' if not (kind.startswith('A') or kind == 'F') else 'batch_append', topic=wtopic, **({'fault': fault_desc} if fault_desc else {}),
                                    entries=[dict(uid=u, len='size%d' % sizes.index(s)) for u, s in ents]))
                if res.variant == 'Ok':
                    q.extend(ents)
                    obs.append(dict(ok=True))
                elif res.variant == 'Panic':
                    obs.append(dict(panic=True))
                    return fail('panic', i, 'append panicked: %s' % res.f[0])
                else:
                    obs.append(dict(err=engine.errkind(x, res)))
                if 'C15' in oracles and kind in ('r', 'L', 'Ar', 'AL', 'AG', 'F'):
                    # a failed append must not change any count
                    for tt in sorted(queues):
                        c = engine.api(x, w, 'get_topic_entry_count', [PStr(tt)])
                        cv = x.tobv(c).t
                        exp = len(queues[tt]) - delivered[tt]
                        if x.sat(cv != exp):
                            x.solver.add(cv != exp)
                            ops_out.append(dict(op='count', topic=tt))
                            obs.append(dict(count=exp))
                            return fail('count', i, 'count of %s after a failed append differs from appended-consumed=%d' % (tt[:8], exp))
                continue
            if kind == 'c':
                c = engine.api(x, w, 'get_topic_entry_count', [PStr(topic)])
                ops_out.append(dict(op='count', topic=topic))
                cv = x.tobv(c).t
                exp = len(q) - d
                obs.append(dict(count=exp))
                if 'C15' in oracles and x.sat(cv != exp):
                    x.solver.add(cv != exp)
                    return fail('count', i, 'count differs from appended-consumed=%d' % exp)
                continue
            if kind in ('R', 'X'):
                if kind == 'X':
                    envmodel.reset_process(x)
                ops_out.append(dict(op='reopen' if kind == 'R' else 'restart_process'))
                if kind == 'X':
                    ops_out.append(dict(op='open'))
                    obs.append(dict(ok=True))
                w = None
                try:
                    r = engine.open_walrus(x, consistency, pe)
                except Panic as p:
                    obs.append(dict(panic=True))
                    return fail('panic', i, 'reopen panicked: %s' % p)
                if r.variant != 'Ok':
                    obs.append(dict(err='open'))
                    return fail('reopen-failed', i, 'reopen returned Err')
                w = r.f[0]
                obs.append(dict(ok=True))
                continue
            # ---- reads
            checkpoint = kind in ('n', 'b', 'B')
            budget = None
            if kind == 'o':
                # offset-addressed read: symbolic offset, budget and checkpoint flag; must not change anything
                j = len(budgets)
                budget = BV(bv64(conc['budgets'][sum(1 for b in budgets if not getattr(b, 'is_max', False))]), 64) if conc else x.symbv('budget%d' % j)
                budgets.append(budget)
                vars_.append(('budget%d' % j, budget.t))
                oi = len(offsets)
                off = BV(bv64(conc['offsets'][oi]), 64) if conc else x.symbv('offset%d' % oi)
                offsets.append(off)
                vars_.append(('offset%d' % oi, off.t))
                ck = x.flip('offset_read_checkpoint%d' % i) if not conc else bool(conc.get('ck', [False])[0])
                res = engine.api(x, w, 'batch_read_for_topic', [PStr(topic), budget, ck, Some(off)])
                ops_out.append(dict(op='batch_read', topic=topic, checkpoint=ck, budget='budget%d' % j, start_offset='offset%d' % oi))
                if res.variant == 'Panic':
                    obs.append(dict(panic=True))
                    return fail('panic', i, 'offset read panicked: %s' % res.f[0])
                if res.variant != 'Ok':
                    obs.append(dict(err=engine.errkind(x, res)))
                    continue
                ents = list(x.deref(res.f[0]).items)
                obs.append(dict(n=len(ents)))
                if 'C02' in oracles and ents:
                    # the run must be [suffix of e_k, e_k+1, ...] of this topic's entries in append order
                    ok = False
                    conds = []
                    for k0 in range(len(q)):
                        if k0 + len(ents) > len(q):
                            break
                        u0, s0 = q[k0]
                        first = engine.entry_chunks(x, ents[0])
                        fl = x.buf_len(Buffer(first)).t
                        c0 = envmodel.chunks_equal(x, first, [Opaque(u0, z3.simplify(s0.t - fl), fl)])
                        c0 = x.land(c0, z3.ULE(fl, s0.t)) if c0 is not False else False
                        rest = True
                        for jx in range(1, len(ents)):
                            uu, ss = q[k0 + jx]
                            rest = x.land(rest, engine.entry_is(x, ents[jx], uu, ss.t))
                        cond = x.land(c0, rest)
                        if cond is True:
                            ok = True
                            break
                        if cond is not False:
                            conds.append(cond)
                    if not ok and conds:
                        none_holds = z3.And([z3.Not(c) for c in conds])
                        if x.sat(none_holds):
                            x.solver.add(none_holds)
                        else:
                            ok = True
                    if not ok:
                        return fail('offset-read', i, 'offset read returned %s, which is not a run of this topic\'s entries in append order' % [engine.describe_entry(x, en) for en in ents])
                continue
            if kind in ('n', 'p'):
                res = engine.api(x, w, 'read_next', [PStr(topic), checkpoint])
                ops_out.append(dict(op='read_next', topic=topic, checkpoint=checkpoint))
            else:
                j = len(budgets)
                if kind == 'B':
                    budget = BV(bv64(MAXU), 64)
                elif kind == 'b' and i > 0 and skel[i - 1][0] == 'P' and skel[i - 1][1] == topic and budgets:
                    budget = budgets[-1]
                    j = len(budgets) - 1
                elif conc:
                    budget = BV(bv64(conc['budgets'][sum(1 for b in budgets if b is not None and not getattr(b, 'is_max', False))]), 64)
                else:
                    budget = x.symbv('budget%d' % j)
                if kind == 'B':
                    budget.is_max = True
                if j == len(budgets):
                    budgets.append(budget)
                    vars_.append(('budget%d' % j, budget.t))
                res = engine.api(x, w, 'batch_read_for_topic', [PStr(topic), budget, checkpoint, NONE])
                ops_out.append(dict(op='batch_read', topic=topic, checkpoint=checkpoint, budget=(MAXU if kind == 'B' else 'budget%d' % j)))
            if res.variant == 'Panic':
                obs.append(dict(panic=True))
                return fail('panic', i, 'read panicked: %s' % res.f[0])
            if res.variant != 'Ok':
                obs.append(dict(err=engine.errkind(x, res)))
                return fail('read-error', i, 'read returned Err(%s)' % engine.errkind(x, res))
            if kind in ('n', 'p'):
                o = x.deref(res.f[0])
                ents = [o.f[0]] if o.variant == 'Some' else []
            else:
                ents = list(x.deref(res.f[0]).items)
            k = len(ents)
            obs.append(dict(n=k))
            if 'C02' in oracles:
                if kind in ('p', 'P'):
                    last_peek[topic] = (kind, budget, [engine.entry_chunks(x, en) for en in ents])
                elif topic in last_peek:
                    pk, pb, pents = last_peek.pop(topic)
                    same_args = (pk == 'p' and kind == 'n') or (pk == 'P' and kind == 'b' and pb is budget)
                    if same_args:
                        diff = None
                        if len(pents) != k:
                            diff = 'peek returned %d entries, the consuming read with the same arguments %d' % (len(pents), k)
                        else:
                            for pe_, en in zip(pents, ents):
                                eq = envmodel.chunks_equal(x, pe_, engine.entry_chunks(x, en))
                                if eq is False or (eq is not True and x.sat(z3.Not(eq))):
                                    if eq is not False:
                                        x.solver.add(z3.Not(eq))
                                    diff = 'peek and the following consuming read returned different entries'
                                    break
                        if diff:
                            return fail('peek-differs', i, diff)
            # C03: cap, progress, budget
            if 'C03' in oracles and budget is not None:
                if k > 2000:
                    return fail('cap', i, 'batch read returned %d entries' % k)
            pending = len(q) - d
            if k == 0 and pending > 0 and ('C01' in oracles or 'C03' in oracles):
                return fail('no-progress', i, 'read returned nothing although %d entries are pending' % pending)
            if k > pending:
                return fail('phantom', i, 'read returned %d entries, only %d pending' % (k, pending))
            # C01: the k entries are exactly the next k of the queue, byte-identical
            if 'C01' in oracles:
                for jx, en in enumerate(ents):
                    u, s = q[d + jx]
                    eq = engine.entry_is(x, en, u, s.t)
                    if eq is False or (eq is not True and x.sat(z3.Not(eq))):
                        if eq is not False:
                            x.solver.add(z3.Not(eq))
                        return fail('wrong-entry', i, 'returned entry %d is %s, expected payload uid=%d' % (jx, engine.describe_entry(x, en), u))
            if 'C03' in oracles and budget is not None and k >= 2:
                tot = bv64(0)
                ovf = False
                for jx in range(k):
                    tot = tot + q[d + jx][1].t
                over = z3.UGT(tot, budget.t)
                if x.sat(over):
                    x.solver.add(over)
                    return fail('budget', i, '%d entries returned whose total payload exceeds the byte budget' % k)
            if checkpoint:
                delivered[topic] = d + k
            # C15 after every read
            if 'C15' in oracles:
                c = engine.api(x, w, 'get_topic_entry_count', [PStr(topic)])
                cv = x.tobv(c).t
                exp = len(q) - delivered[topic]
                if x.sat(cv != exp):
                    x.solver.add(cv != exp)
                    ops_out.append(dict(op='count', topic=topic))
                    obs.append(dict(count=exp))
                    return fail('count', i, 'count after read differs from appended-consumed=%d' % exp)
        wit = None
        if cfg.get('witness', True) and not conc:
            wit = x.model_values(dict(vars_))
        return dict(job=job, verdict='ok', witness=wit, ops=ops_out, obs=obs, flags=sorted(x.path_flags),
                    shape=dict(files=len(x.fs.files), io_events=len(x.io_log)))
    return x, driver
