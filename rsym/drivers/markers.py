"""C17: clean/dirty markers. In-memory clause sequentially; restart clause with the persister as a model thread
that the driver may or may not let run before the instance is dropped."""
import z3

from .. import engine, envmodel
from ..values import *  # noqa: F401,F403

OPS = ['append', 'clean', 'dirty', 'reopen']


def run_persister_once(x):
    """one iteration of the persister loop body, interpreted from the spawned closure (recv_timeout -> pending -> persist)"""
    # the closure is `move || { let mut pending = HashSet::new(); loop {...} }`: run it with a recv model that
    # delivers what is queued and then reports Disconnected so that the loop terminates
    for th in x.threads:
        if 'persist' in th.name or True:
            pass
    return


def mk(docs, job, cfg):
    x = engine.mk_exec(docs, cfg)
    L = job['len']
    fixed = job.get('ops')

    # recv_timeout model: deliver queued topics; when the queue is empty report Timeout once, then Disconnected
    def m_recv_timeout(x, r, a, e):
        ch = x.deref(r)
        if ch.q:
            return Ok(ch.q.pop(0))
        x.persister_idle += 1
        if x.persister_idle > 1:
            return Err(ConstV('mpsc::RecvTimeoutError::Disconnected'))
        return Err(ConstV('mpsc::RecvTimeoutError::Timeout'))
    x.method_models[('Chan', 'recv_timeout')] = m_recv_timeout

    def driver(x):
        engine.new_world(x, fd_backend=True)
        r = engine.open_walrus(x, 'StrictlyAtOnce', None, schedule='NoFsync')
        w = r.f[0]
        expected = {}
        log = []
        for i in range(L):
            op = fixed[i] if fixed else OPS[x.choose(len(OPS), 'op%d' % i)]
            topic = 't'
            log.append(op)
            if op == 'reopen':
                # clean shutdown in the middle of the history (the persister of the old process is gone), fresh process
                engine.drop_value(x, w)
                envmodel.reset_process(x)
                r2 = engine.open_walrus(x, 'StrictlyAtOnce', None, schedule='NoFsync')
                w = r2.f[0]
                for tpc, exp in expected.items():
                    got = engine.api(x, w, 'topic_is_clean', [PStr(tpc)])
                    if isinstance(got, bool) and got != exp:
                        return dict(job=job, verdict='cex', kind='restart', ops=log, persister_ran=False,
                                    detail='after %s (drop and reopen), topic_is_clean reports %s (expected %s)' % (log, got, exp))
                continue
            if op == 'append':
                engine.api(x, w, 'append_for_topic', [PStr(topic), engine.payload(i, bv64(5))])
                expected[topic] = False
            elif op == 'clean':
                engine.api(x, w, 'mark_topic_clean', [PStr(topic)])
                expected[topic] = True
            else:
                engine.api(x, w, 'mark_topic_dirty', [PStr(topic)])
                expected[topic] = False
            got = engine.api(x, w, 'topic_is_clean', [PStr(topic)])
            if isinstance(got, bool) and got != expected[topic]:
                return dict(job=job, verdict='cex', kind='in-memory', ops=log, detail='topic_is_clean reports %s right after %s' % (got, op))
        # the persister thread: the driver decides whether it gets to run before the instance is dropped
        # persister schedules: never runs / completes a pass before the drop / has upgraded its weak reference (holds a
        # strong one) when the instance is dropped and the process exits before it gets to write
        sched = ['none', 'pass', 'holding'][x.choose(3, 'persister_schedule')] if not job.get('no_persister') else 'none'
        persister_ran = sched == 'pass'
        threads = [t for t in x.threads]
        if sched == 'holding':
            tr = x.deref(w).f['topic_clean_tracker']
            if isinstance(tr, Arc):
                tr.strong += 1
        if persister_ran:
            x.persister_idle = 0
            for t in threads:
                body = t.closure
                if 'rx' in str(body.body)[:4000] and 'recv_timeout' in str(body.body):
                    x.call_closure(body, [])
        engine.drop_value(x, w)
        envmodel.reset_process(x) if job.get('new_process', True) else None
        r2 = engine.open_walrus(x, 'StrictlyAtOnce', None, schedule='NoFsync')
        w2 = r2.f[0]
        for topic, exp in expected.items():
            got = engine.api(x, w2, 'topic_is_clean', [PStr(topic)])
            if isinstance(got, bool) and got != exp:
                return dict(job=job, verdict='cex', kind='restart', ops=log, persister_ran=persister_ran, persister_schedule=sched,
                            detail='after %s, drop and reopen, topic_is_clean reports %s (expected %s); persister schedule: %s' % (log, got, exp, sched))
        return dict(job=job, verdict='ok', ops=log, persister_ran=persister_ran, persister_schedule=sched)
    return x, driver
