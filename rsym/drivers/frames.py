"""C24: the real client.rs (handle_connection, handle_command, send_response) over a symbolic byte stream."""
import z3

from ..core import Exec, Program
from ..values import *  # noqa

FILES = ['distributed-walrus/src/client.rs']
MAX_FRAME = 64 * 1024
WS = [9, 10, 11, 12, 13, 32]


class Sock:
    def __init__(s, data):
        s.data, s.pos, s.prefix_reads, s.out = data, 0, [], []
        s.body_reads = []
        s.segments = []


class IoErr:
    def __init__(s, kind):
        s.kind = kind


class Ctl:
    """controller stub: REGISTER creates a queue; PUT/GET/STATE on an unknown topic fail (same as the native stub)"""

    def __init__(s):
        s.topics = []      # list of (VStr name, [payload VStr])
        s.puts = []
        s.gets = []


def frame_judge(stream, prefix_reads, out_bytes, result_ok=True):
    """reference oracle (a)+(b) on concrete data; returns text or None. Used for native replays."""
    N = len(stream)
    bounds = []
    p = 0
    expected = 0
    closed_ok = False
    while p + 4 <= N:
        ln = int.from_bytes(bytes(stream[p:p + 4]), 'little')
        bounds.append(p)
        if ln == 0:
            expected += 1
            p += 4
            continue
        if ln > MAX_FRAME:
            expected += 1
            closed_ok = True      # after ERR the server may close; it must not read a prefix at a non-boundary
            p = p + 4 + ln
            continue
        if p + 4 + ln > N:
            break
        expected += 1
        p = p + 4 + ln
    for i, r in enumerate(prefix_reads):
        if i >= len(bounds) or r != bounds[i]:
            return 'server read a length prefix at offset %d, client frame boundaries are %s' % (r, bounds)
    # parse responses
    q = 0
    n = 0
    while q + 4 <= len(out_bytes):
        ln = int.from_bytes(bytes(out_bytes[q:q + 4]), 'little')
        q += 4 + ln
        n += 1
    if q != len(out_bytes):
        return 'server output is not a sequence of complete response frames'
    if len(prefix_reads) == len(bounds) or not closed_ok:
        if n != expected:
            return '%d responses for %d client frames' % (n, expected)
    else:
        # the server stopped after an oversize frame: one response per prefix it read
        if n != len(prefix_reads):
            return '%d responses for %d frames read before closing' % (n, len(prefix_reads))
    return None


def mk(docs, job, cfg):
    x = Exec(Program(docs), query_timeout_ms=cfg.get('qt', 20000), seed=cfg.get('seed', 0))
    x.symbolic_strings = True
    N = job['n']
    conc = job.get('stream')
    mm, fn = x.method_models, x.fn_models

    def m_read_exact(x, sock, a, e):
        buf = x.deref(a[0])
        n_t = x.buf_len(buf).t
        remaining = len(sock.data) - sock.pos
        n = x.concretize(n_t)
        if n is None:
            for k in range(0, remaining + 1):
                if x.branch(n_t == k):
                    n = k
                    break
            if n is None:
                sock.pos = len(sock.data)
                return Err(IoErr('UnexpectedEof'))
        if n > remaining:
            sock.pos = len(sock.data)
            return Err(IoErr('UnexpectedEof'))
        sock.body_reads.append((sock.pos, n, buf))
        buf.chunks = [Bytes(sock.data[sock.pos:sock.pos + n])]
        sock.pos += n
        return Ok(BV(bv64(n), 64))

    def m_write_all(x, sock, a, e):
        v = x.deref(a[0])
        if isinstance(v, Buffer):
            sock.out.extend(x.buf_items(v))
        else:
            for c in x.to_vstr(v).c:
                sock.out.append(c)       # Int-sorted code point (ASCII bound: one byte each)
        return Ok(UNIT)
    def m_read(x, sock, a, e):
        """AsyncReadExt::read: returns what has arrived so far -- any n with 1 <= n <= min(buffer, remaining) (0 only at EOF)"""
        buf = x.deref(a[0])
        cap = x.concretize(x.buf_len(buf).t)
        if cap is None:
            raise Unsupported('read into a buffer of symbolic length')
        remaining = len(sock.data) - sock.pos
        if remaining == 0 or cap == 0:
            return Ok(BV(bv64(0), 64))
        top = min(cap, remaining)
        cands = sorted({top, 1, max(1, top // 2)} | (set(range(1, top + 1)) if top <= 6 else set()), reverse=True)
        n = cands[x.choose(len(cands), 'short_read%d' % sock.pos)]
        sock.body_reads.append((sock.pos, n, buf))
        sock.segments.append(sock.pos + n)
        rest = buf.chunks[0].b[n:] if len(buf.chunks) == 1 and isinstance(buf.chunks[0], Bytes) else [0] * (cap - n)
        buf.chunks = [Bytes(list(sock.data[sock.pos:sock.pos + n]) + list(rest))]
        sock.pos += n
        return Ok(BV(bv64(n), 64))

    def m_truncate(x, r, a, e):
        b = x.deref(r)
        n = x.concrete_index(a[0], 1 << 20)
        items = x.buf_items(b)
        b.chunks = [Bytes(items[:n])]
        return UNIT
    mm[('Sock', 'read')] = m_read
    mm[('Buffer', 'truncate')] = m_truncate
    mm[('Sock', 'read_exact')] = m_read_exact
    mm[('Sock', 'write_all')] = m_write_all
    mm[('IoErr', 'kind')] = lambda x, r, a, e: ConstV('std::io::ErrorKind::' + r.kind)
    mm[('IoErr', 'into')] = lambda x, r, a, e: r

    def m_to_le_bytes(x, r, a, e):
        v = x.tobv(r)
        return Buffer([Bytes([BV(z3.Extract(8 * i + 7, 8 * i, v.t), 8) for i in range(v.bits // 8)])])
    mm[('BV', 'to_le_bytes')] = m_to_le_bytes
    old_le = fn['u32::from_le_bytes']

    def f_from_le(x, a, e):
        b = x.deref(a[0])
        for pos, n, bo in x.sock.body_reads:
            if bo is b and pos not in x.sock.prefix_reads:
                x.sock.prefix_reads.append(pos)      # a read whose bytes are decoded as a length is a prefix read
        return old_le(x, a, e)
    fn['u32::from_le_bytes'] = f_from_le

    def f_from_utf8(x, a, e):
        items = x.buf_items(x.deref(a[0]))
        ascii_ = z3.And([z3.ULT(b.t, 128) for b in items]) if items else True
        if x.branch(ascii_):
            return Ok(VStr([z3.BV2Int(b.t) for b in items]))
        x.path_flags.add('nonascii')
        # UTF-8 well-formedness automaton (Unicode table 3-7) as a chain of 4-bit state variables
        S = lambda k: z3.BitVecVal(k, 4)
        st = S(0)
        for i, b in enumerate(items):
            v = b.t
            rng = lambda lo, hi: z3.And(z3.UGE(v, lo), z3.ULE(v, hi))
            cont = rng(0x80, 0xBF)
            from0 = z3.If(z3.ULT(v, 0x80), S(0), z3.If(rng(0xC2, 0xDF), S(1), z3.If(v == 0xE0, S(4), z3.If(v == 0xED, S(5),
                    z3.If(rng(0xE1, 0xEF), S(2), z3.If(v == 0xF0, S(6), z3.If(rng(0xF1, 0xF3), S(3), z3.If(v == 0xF4, S(7), S(8)))))))))
            nxt = z3.If(st == 0, from0,
                  z3.If(st == 1, z3.If(cont, S(0), S(8)),
                  z3.If(st == 2, z3.If(cont, S(1), S(8)),
                  z3.If(st == 3, z3.If(cont, S(2), S(8)),
                  z3.If(st == 4, z3.If(rng(0xA0, 0xBF), S(1), S(8)),
                  z3.If(st == 5, z3.If(rng(0x80, 0x9F), S(1), S(8)),
                  z3.If(st == 6, z3.If(rng(0x90, 0xBF), S(2), S(8)),
                  z3.If(st == 7, z3.If(rng(0x80, 0x8F), S(2), S(8)), S(8)))))))))
            if z3.is_bv_value(v):
                st = z3.simplify(nxt)
            else:
                sv = x.symbv('utf8_state', 4).t
                x.solver.add(sv == nxt)
                st = sv
        if x.branch(st == 0):
            # bytes are kept as code points (one per byte): content is judged for framing and char boundaries only
            return Ok(VStr([z3.BV2Int(b.t) for b in items]))
        return Err(UNIT)
    fn['String::from_utf8'] = f_from_utf8
    fn['String::from_utf8_lossy'] = lambda x, a, e: a[0]

    def m_trim_end(x, r, a, e):
        s = list(x.to_vstr(r).c)
        while s and x.branch(z3.Or([s[-1] == w for w in WS])):
            s = s[:-1]
        return VStr(s)
    mm[('VStr', 'trim_end')] = m_trim_end

    def m_ok_or_else(x, r, a, e):
        r = x.deref(r)
        if r.variant == 'Some':
            return Ok(r.f[0])
        return Err(x.call_closure(a[0], []))
    mm[('*', 'ok_or_else')] = m_ok_or_else

    # controller stub
    def find(ctl, name):
        name = x.to_vstr(name)
        for t in ctl.topics:
            eq = x.binop('==', t[0], name)
            if x.branch(eq):
                return t
        return None

    def errmsg(prefix, name):
        return VStr([z3.IntVal(ord(c)) for c in prefix] + list(x.to_vstr(name).c))

    def c_ensure(x, r, a, e):
        if find(r.f['ctl'], a[0]) is None:
            r.f['ctl'].topics.append((x.to_vstr(a[0]), []))
        return Ok(UNIT)

    def c_append(x, r, a, e):
        t = find(r.f['ctl'], a[0])
        if t is None:
            return Err(errmsg('unknown topic ', a[0]))
        t[1].append(x.to_vstr(a[1]))
        r.f['ctl'].puts.append((x.to_vstr(a[0]), x.to_vstr(a[1]), x.cur_frame))
        return Ok(UNIT)

    def c_read(x, r, a, e):
        t = find(r.f['ctl'], a[0])
        if t is None:
            return Err(errmsg('unknown topic ', a[0]))
        if t[1]:
            v = t[1].pop(0)
            r.f['ctl'].gets.append((v, len(x.sock.out)))
            return Ok(Some(v))
        return Ok(NONE)

    def c_snapshot(x, r, a, e):
        if find(r.f['ctl'], a[0]) is None:
            return Err(errmsg('unknown topic ', a[0]))
        return Ok(VStr([z3.IntVal(ord(c)) for c in 'STATE']))
    mm[('Struct:ControllerModel', 'ensure_topic')] = c_ensure
    mm[('Struct:ControllerModel', 'append_for_topic')] = c_append
    mm[('Struct:ControllerModel', 'read_one_for_topic_shared')] = c_read
    mm[('Struct:ControllerModel', 'topic_snapshot')] = c_snapshot
    mm[('Struct:ControllerModel', 'get_metrics')] = lambda x, r, a, e: Ok(VStr([z3.IntVal(ord(c)) for c in 'METRICS']))

    old_index = x.e_index

    def e_index(e, env):
        b = x.deref(x.eval(e['base'], env))
        if isinstance(b, VStr):
            r = x.eval(e['index'], env)
            if isinstance(r, RangeV):
                for bound in (r.a, r.b):
                    if bound is None:
                        continue
                    k = x.concrete_index(bound, len(b.c) + 1)
                    if k > len(b.c):
                        raise Panic('str slice index out of range')
                    if 0 < k < len(b.c):
                        cont = z3.And(b.c[k] >= 0x80, b.c[k] <= 0xBF)
                        if x.sat(cont) and x.branch(cont):
                            raise Panic('byte index %d is not a char boundary' % k)
        return old_index(e, env)
    x.e_index = e_index

    def driver(x):
        if conc is not None:
            data = [BV(z3.BitVecVal(b, 8), 8) for b in conc]
        else:
            pre = job.get('prefix', [])
            data = [BV(z3.BitVecVal(b, 8), 8) for b in pre]
            if 'shape' in job:
                # frames with concrete length prefixes; bodies are concrete bytes or k symbolic ASCII-or-not bytes
                for fr in job['shape']:
                    body = fr if isinstance(fr, list) else None
                    k = len(body) if body is not None else fr['sym']
                    data += [BV(z3.BitVecVal(b, 8), 8) for b in k.to_bytes(4, 'little')]
                    if body is not None:
                        data += [BV(z3.BitVecVal(b, 8), 8) for b in body]
                    else:
                        lead = fr.get('lead', [])
                        data += [BV(z3.BitVecVal(b, 8), 8) for b in lead] + [x.symbv('s%d_' % len(data), 8) for _ in range(k - len(lead))]
            else:
                data += [x.symbv('b%d_' % i, 8) for i in range(N)]
        sock = Sock(data)
        x.sock = sock
        x.in_prefix = True
        x.cur_frame = None
        ctl = Ctl()
        try:
            res = x.deref(x.call(None, 'handle_connection', [sock, Arc(Struct('ControllerModel', {'ctl': ctl}))]))
        except Panic as p:
            m = x.model_values(dict(('b%d' % i, d.t) for i, d in enumerate(data)))
            return dict(job=job, verdict='cex', detail='the connection task panicked: %s' % p, stream=[m['b%d' % i] for i in range(len(data))] if m else None,
                        prefix_reads=sock.prefix_reads, responses=0, segments=sorted(set(sock.segments)))
        # ---- oracle (a)+(b): framing and response count (client framing computed from the data independently)
        bounds = []
        p = 0
        expected = 0
        closed_ok = False
        undecided = False
        while p + 4 <= len(data):
            ln_t = z3.Concat(*[data[p + 3 - i].t for i in range(4)])
            ln = x.concretize(ln_t)
            bounds.append(p)
            if ln is None:
                # length not determined on this path: it is a frame the server never got to, or an oversize one
                if x.valid(z3.UGT(ln_t, MAX_FRAME)):
                    expected += 1
                    closed_ok = True
                    break
                undecided = True
                break
            if ln == 0:
                expected += 1
                p += 4
                continue
            if ln > MAX_FRAME:
                expected += 1
                closed_ok = True
                break
            if p + 4 + ln > len(data):
                break
            expected += 1
            p += 4 + ln
        viol = None
        for i, r in enumerate(sock.prefix_reads):
            if i >= len(bounds) or r != bounds[i]:
                viol = 'server read a length prefix at offset %d, client frame boundaries are %s' % (r, bounds)
                break
        # responses written: lengths are concrete per path
        nresp = 0
        q = 0
        out = sock.out
        while q + 4 <= len(out) and viol is None:
            lt = z3.Concat(*[x.tobv(out[q + 3 - i], 8).t for i in range(4)])
            ln = x.concretize(lt)
            if ln is None:
                viol = 'response length not determined'
                break
            q += 4 + ln
            nresp += 1
        if viol is None and not undecided:
            if q != len(out):
                viol = 'server output is not a sequence of complete response frames'
            elif len(sock.prefix_reads) == len(bounds) or not closed_ok:
                if nresp != expected:
                    viol = '%d responses for %d client frames' % (nresp, expected)
            elif nresp != len(sock.prefix_reads):
                viol = '%d responses for %d frames read before closing' % (nresp, len(sock.prefix_reads))
        # ---- oracle (c): PUT payload = frame text after the second space, minus trailing whitespace; GET returns it
        if viol is None and 'nonascii' not in x.path_flags:
            for topic, payload, fr in ctl.puts:
                body = fr
                # independent recomputation on the raw body
                e_ = len(body)
                while e_ > 0 and x.valid(z3.Or([body[e_ - 1] == w for w in WS])):
                    e_ -= 1
                sp = [i for i in range(e_) if x.valid(body[i] == 32)]
                if len(sp) < 2:
                    viol = 'PUT reached the controller without two separators in the frame'
                    break
                exp = body[sp[1] + 1:e_]
                if len(exp) != len(payload.c) or (exp and x.sat(z3.Not(z3.And([p_ == q_ for p_, q_ in zip(exp, payload.c)])))):
                    viol = 'PUT payload handed to the controller differs from the frame payload'
                    break
            for v, outpos in ctl.gets:
                # response frame written at outpos: [len][OK ][payload]
                exp = [z3.IntVal(ord(c)) for c in 'OK '] + list(v.c)
                got = out[outpos + 4:outpos + 4 + len(exp)]
                if len(got) != len(exp):
                    viol = 'GET response shorter than the stored payload'
                    break
                conds = []
                for g, ex in zip(got, exp):
                    gi = g if not isinstance(g, BV) else z3.BV2Int(g.t)
                    gi = z3.IntVal(g) if isinstance(g, int) else gi
                    conds.append(gi == ex)
                if x.sat(z3.Not(z3.And(conds))):
                    viol = 'GET response differs from the payload that was PUT'
                    break
        terms = dict(('b%d' % i, d.t) for i, d in enumerate(data))
        if viol:
            m = x.model_values(terms)
            return dict(job=job, verdict='cex', detail=viol, stream=[m['b%d' % i] for i in range(len(data))] if m else None,
                        prefix_reads=sock.prefix_reads, responses=nresp, segments=sorted(set(sock.segments)))
        m = x.model_values(terms) if cfg.get('witness', True) else None
        return dict(job=job, verdict='ok', stream=[m['b%d' % i] for i in range(len(data))] if m else None,
                    prefix_reads=sock.prefix_reads, responses=nresp, puts=len(ctl.puts), gets=len(ctl.gets),
                    flags=sorted(x.path_flags), out_len=len(out), segments=sorted(set(sock.segments)))
    # body frames: remember the current frame text for oracle (c)
    old_call_fn = x.call_fn

    def call_fn(item, args, self_val=None):
        if item['sig']['name'] == 'handle_command':
            x.cur_frame = list(x.to_vstr(args[0]).c) if False else x.last_text
        return old_call_fn(item, args, self_val)
    x.call_fn = call_fn
    old_from = fn['String::from_utf8']

    def from_utf8_rec(x, a, e):
        r = old_from(x, a, e)
        if r.variant == 'Ok':
            x.last_text = list(x.deref(r.f[0]).c)
        return r
    fn['String::from_utf8'] = from_utf8_rec
    return x, driver
