"""C18: the real Metadata::apply over bounded symbolic command sequences."""
import z3

from ..core import Exec, Program
from ..values import *  # noqa

FILES = ['distributed-walrus/src/metadata.rs']
KINDS = ['garbage', 'create', 'rollover', 'upsert']


def invariants(x, st, prev):
    """None or text of the violated invariant (z3 decides the symbolic equalities)"""
    for name, t in st.f['topics'].d.items():
        t = x.deref(t)
        cur = x.concretize(x.tobv(t.f['current_segment']).t)
        if cur is None:
            return 'current_segment of %s is not determined by the history' % name
        leaders = x.deref(t.f['segment_leaders']).d
        sealed = x.deref(t.f['sealed_segments']).d
        if sorted(leaders.keys()) != list(range(1, cur + 1)):
            return 'topic %s: segments with a leader are %r, current segment is %d' % (name, sorted(leaders.keys()), cur)
        if sorted(sealed.keys()) != list(range(1, cur)):
            return 'topic %s: sealed segments are %r, current segment is %d' % (name, sorted(sealed.keys()), cur)
        if x.sat(x.tobv(leaders[cur]).t != x.tobv(t.f['leader_node']).t):
            return 'topic %s: leader of the open segment differs from the topic leader' % name
        tot = z3.BitVecVal(0, 64)
        for k, v in sealed.items():
            tot = tot + x.tobv(v).t
        if x.sat(tot != x.tobv(t.f['last_sealed_entry_offset']).t):
            return 'topic %s: cumulative sealed offset differs from the sum of sealed counts' % name
        if prev and name in prev:
            for k, (cnt, ld) in prev[name].items():
                if k not in sealed or x.sat(z3.Or(x.tobv(sealed[k]).t != cnt, x.tobv(leaders[k]).t != ld)):
                    return 'topic %s: sealed segment %d changed its count or leader' % (name, k)
    return None


def snapshot(x, st):
    out = {}
    for name, t in st.f['topics'].d.items():
        t = x.deref(t)
        sealed = x.deref(t.f['sealed_segments']).d
        leaders = x.deref(t.f['segment_leaders']).d
        out[name] = {k: (x.tobv(v).t, x.tobv(leaders[k]).t) for k, v in sealed.items() if k in leaders}
    return out


def mk(docs, job, cfg):
    x = Exec(Program(docs), query_timeout_ms=cfg.get('qt', 20000), seed=cfg.get('seed', 0), overflow_checks=cfg.get('overflow_checks', False))
    n = job['len']
    x.fn_models['Bytes::from_static'] = lambda x, a, e: a[0]
    x.fn_models['bincode::deserialize'] = lambda x, a, e: x.current_cmd
    conc = job.get('cmds')

    def driver(x):
        st = Struct('ClusterState', {'topics': VMap(), 'nodes': VMap()})
        md = Struct('Metadata', {'state': Arc(Lock(st))})
        prev = None
        log = []
        terms = {}
        for step in range(n):
            if conc:
                c = conc[step]
                kind = c['kind']
                name = PStr(c.get('name', 'a'))
                leader = BV(bv64(c.get('leader', 1)), 64)
                cnt = BV(bv64(c.get('count', 0)), 64)
            else:
                kind = KINDS[x.choose(4, 'kind%d' % step)]
                name = PStr('a') if x.flip('name%d' % step) else PStr('b')
                leader = x.symbv('leader%d_' % step)
                x.solver.add(z3.ULE(leader.t, 3), z3.UGE(leader.t, 1))
                cnt = x.symbv('count%d_' % step)
                terms['leader%d' % step] = leader.t
                terms['count%d' % step] = cnt.t
            if kind == 'garbage':
                cmd = Err(PStr('decode'))
            elif kind == 'create':
                cmd = Ok(EnumV('MetadataCmd', 'CreateTopic', {'name': name, 'initial_leader': leader}))
            elif kind == 'rollover':
                cmd = Ok(EnumV('MetadataCmd', 'RolloverTopic', {'name': name, 'new_leader': leader, 'sealed_segment_entry_count': cnt}))
            else:
                cmd = Ok(EnumV('MetadataCmd', 'UpsertNode', {'node_id': leader, 'addr': PStr('x')}))
            x.current_cmd = cmd
            log.append(dict(kind=kind, name=name.v))
            v = None
            try:
                x.call('Metadata', 'apply', [Buffer([])], md)
            except Panic as p:
                v = 'apply panicked: %s' % p
                kindv = 'overflow-panic' if 'overflow' in str(p) else 'panic'
            if v is None:
                v = invariants(x, st, prev)
                kindv = 'invariant'
            if v:
                m = x.model_values(terms) if terms else {}
                cmds = [dict(l, leader=m.get('leader%d' % i, 1), count=m.get('count%d' % i, 0)) for i, l in enumerate(log)] if not conc else conc
                return dict(job=job, verdict='cex', kind=kindv, detail=v, step=step, cmds=cmds)
            prev = snapshot(x, st)
        m = x.model_values(terms) if terms else {}
        cmds = [dict(l, leader=m.get('leader%d' % i, 1), count=m.get('count%d' % i, 0)) for i, l in enumerate(log)] if not conc else conc
        final = {}
        if conc:
            for name, t in st.f['topics'].d.items():
                t = x.deref(t)
                final[name] = dict(current_segment=x.concretize(x.tobv(t.f['current_segment']).t), leader_node=x.concretize(x.tobv(t.f['leader_node']).t),
                                   last_sealed_entry_offset=x.concretize(x.tobv(t.f['last_sealed_entry_offset']).t),
                                   sealed_segments={str(k): x.concretize(x.tobv(v).t) for k, v in x.deref(t.f['sealed_segments']).d.items()},
                                   segment_leaders={str(k): x.concretize(x.tobv(v).t) for k, v in x.deref(t.f['segment_leaders']).d.items()})
        return dict(job=job, verdict='ok', cmds=cmds, kinds=[l['kind'] for l in log], final=final)
    return x, driver
