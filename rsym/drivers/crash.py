"""Driver `crash` (C07, C08, C09): a history with symbolic sizes, a process crash right before one I/O event
(the crash point is a driver decision at every event), then the real recovery and a drain of every topic."""
import z3

from .. import engine, envmodel
from ..values import *  # noqa: F401,F403
from .stream import parse_skel, minimise, MAXU


class Crash(BaseException):
    pass


# ---------------------------------------------------------------------------------------------- power loss (C10)
# Journal of file-system effects with their durability: a data write is durable once its file was synced
# (sync_all / msync) after it, or at once on a handle opened O_SYNC; a directory entry (create, rename) is durable
# once the directory was synced after it. At the power-loss point every non-durable effect is kept or dropped by a
# solver-visible decision; the resulting directory is what the fresh process recovers from.
_orig_file_write = envmodel.file_write


def _file_write(x, fm, off, buf, event=True):
    n = len(fm.extents)
    _orig_file_write(x, fm, off, buf, event)
    P = getattr(x, 'power', None)
    if P is not None:
        for i in range(n, len(fm.extents)):
            P['seq'] += 1
            P['wseq'][(fm.name, i)] = (P['seq'], P['coord']())


envmodel.file_write = _file_write


def install_power(x):
    fn, mm = x.fn_models, x.method_models
    pathstr = lambda v: x.deref(v).v

    def tick(P):
        P['seq'] += 1
        return P['seq']
    for name in ('std::fs::File::create', 'fs::File::create', 'File::create'):
        def f_create(x, a, e, orig=fn[name]):
            r = orig(x, a, e)
            P = getattr(x, 'power', None)
            if P is not None and r.variant == 'Ok':
                P['dirops'].append(dict(t='create', path=pathstr(a[0]), seq=tick(P), coord=P['coord']()))
            return r
        fn[name] = f_create

    def f_rename(x, a, e, orig=fn['fs::rename']):
        P = getattr(x, 'power', None)
        src, dst = pathstr(a[0]), pathstr(a[1])
        old, obj = x.fs.files.get(dst), x.fs.files.get(src)
        r = orig(x, a, e)
        if P is not None:
            P['dirops'].append(dict(t='rename', src=src, path=dst, old=old, obj=obj, seq=tick(P), coord=P['coord']()))
        return r
    fn['fs::rename'] = f_rename

    def f_write_small(x, a, e, orig=fn['fs::write']):
        r = orig(x, a, e)
        P = getattr(x, 'power', None)
        if P is not None:
            P['small'][id(x.fs.files.get(pathstr(a[0])))] = tick(P)
        return r
    fn['fs::write'] = f_write_small

    def m_sync(x, r, a, e, orig=mm[('FileV', 'sync_all')]):
        res = orig(x, r, a, e)
        P = getattr(x, 'power', None)
        if P is not None and res.variant == 'Ok':
            t_ = tick(P)
            P['syncs'].append(('dir' if r.is_dir else 'file', r.path, t_))
            if r.fm is not None:
                P['syncs'].append(('obj', id(r.fm), t_))
        return res
    mm[('FileV', 'sync_all')] = m_sync

    def m_msync(x, r, a, e, orig=mm[('MmapMutV', 'flush')]):
        res = orig(x, r, a, e)
        P = getattr(x, 'power', None)
        if P is not None and res.variant == 'Ok':
            P['syncs'].append(('file', r.filev.path, tick(P)))
        return res
    mm[('MmapMutV', 'flush')] = m_msync

    def m_open(x, r, a, e, orig=mm[('OpenOptsV', 'open')]):
        res = orig(x, r, a, e)
        P = getattr(x, 'power', None)
        if P is not None and res.variant == 'Ok' and 'o_sync' in r.flags:
            P['osync'].add(pathstr(a[0]))
        return res
    mm[('OpenOptsV', 'open')] = m_open


def apply_power_loss(x):
    """drop or keep every non-durable effect; returns the directives that materialise the same state natively"""
    P = x.power
    x.power = None
    synced = lambda kind, path, seq: any(k == kind and p == path and s > seq for k, p, s in P['syncs'])
    dirof = lambda p: p.rsplit('/', 1)[0]
    directives = []
    wal = sorted(p for p, f in x.fs.files.items() if isinstance(f, envmodel.FileModel))
    # directory entries first (a file whose creation is lost takes its data with it)
    renames = {}
    for op in P['dirops']:
        if synced('dir', dirof(op['path']), op['seq']):
            continue
        if op['t'] == 'create':
            f = x.fs.files.get(op['path'])
            if f is not None and isinstance(f, envmodel.FileModel) and not x.flip('keep_create_%d' % op['seq']):
                directives.append(dict(t='delete_file', file_ord=wal.index(op['path'])))
                del x.fs.files[op['path']]
                if op['path'] in x.fs.created_order:
                    x.fs.created_order.remove(op['path'])
        elif op['t'] == 'rename':
            renames.setdefault(op['path'], []).append(op)
    for dst, rs in renames.items():
        if not dst.endswith('read_offset_idx_index.db'):
            continue            # clean-marker file: C17's subject, treated as durable here
        # only the last rename that reached the disk matters: L = 0 (none) .. len(rs)
        L = x.choose(len(rs) + 1, 'last_durable_rename') if len(rs) > 0 else 0
        L = len(rs) - L         # explore "all kept" first
        if L < len(rs):
            nxt = rs[L]
            directives.append(dict(t='index_state', before=list(nxt['coord'])))
            if L == 0:
                old = rs[0]['old']
                if old is None:
                    x.fs.files.pop(dst, None)
                else:
                    x.fs.files[dst] = old
            else:
                x.fs.files[dst] = rs[L - 1]['obj']
        if L > 0:
            # the surviving rename points at a file whose *content* may never have been synced
            obj = rs[L - 1]['obj']
            ws = P['small'].get(id(obj))
            if ws is not None and not synced('obj', id(obj), ws) and not x.flip('keep_index_content'):
                x.fs.files[dst] = envmodel.SmallFile(dst, None)
                directives.append(dict(t='index_empty'))
        # the name of the temporary file of a lost rename may or may not exist; recovery must not depend on it
    # data writes
    for path in wal:
        f = x.fs.files.get(path)
        if f is None:
            continue
        keep = []
        for i, ext in enumerate(f.extents):
            ws = P['wseq'].get((f.name, i))
            if ws is None or path in P['osync'] or synced('file', path, ws[0]) or x.flip('keep_write_%d' % ws[0]):
                keep.append(ext)
            else:
                directives.append(dict(t='zero_range', file_ord=wal.index(path), _off=ext[0], _len=clen(ext[1])))
        f.extents = keep
    return directives


def mk(docs, job, cfg):
    cfg = dict(cfg, **job.get('cfg', {}))
    x = engine.mk_exec(docs, cfg)
    skel = parse_skel(job['skel'])
    fd = job.get('backend', 'fd') == 'fd'
    consistency = job.get('consistency', 'StrictlyAtOnce')
    pe_val = job.get('persist_every', 1)
    sizecap = job.get('sizecap', cfg.get('sizecap', 32 * 2 ** 20))
    conc = job.get('concrete')
    fixed_crash = job.get('crash_at')       # (op index, event index) for concrete replays of the model; None = symbolic
    power = bool(job.get('power'))
    schedule = job.get('schedule', 'SyncEach' if power else 'NoFsync')
    if power:
        install_power(x)

    def driver(x):
        engine.new_world(x, fd_backend=fd)
        st = dict(armed=False, op=None, ev=0, crashed=None)

        def before_io(kind, what, n):
            if not st['armed'] or st['crashed'] is not None:
                return
            k = st['ev']
            st['ev'] += 1
            if fixed_crash is not None:
                hit = (fixed_crash[0] == len(ops_out) and fixed_crash[1] == k)
            else:
                hit = x.flip('crash_before_op%s_ev%d' % (st['op'], k))
            if hit:
                st['crashed'] = (len(ops_out), k, kind)       # index of the interrupted op in the replay script
                raise Crash()
        x.before_io = before_io

        def openw():
            if power:
                return engine._open_walrus(x, consistency, pe, schedule, engine.ROOT)      # uncached: the journal must see it
            return engine.open_walrus(x, consistency, pe, schedule)
        if power:
            x.last_directives = None
            x.power = dict(seq=0, wseq={}, syncs=[], dirops=[], small={}, osync=set(), coord=lambda: (len(ops_out), st['ev'] - 1))
        pe = BV(z3.BitVecVal(pe_val, 32), 32) if consistency == 'AtLeastOnce' else None
        vars_ = []
        sizes, budgets = [], []
        acked = {}          # topic -> [uid]
        size_of = {}
        delivered = {}      # topic -> consumed count acknowledged to the caller
        inflight = None     # ('append', topic, [uids]) | ('read', topic, kind)
        ops_out = []
        events_per_op = []
        uid = 0
        w = None
        try:
            st.update(armed=True, op='open', ev=0)
            mark = len(x.io_log)
            r = openw()
            events_per_op.append([k for k, _ in x.io_log[mark:]])
            if r.variant != 'Ok':
                raise Unsupported('open failed on an empty directory')
            w = r.f[0]
            for i, (kind, topic, n) in enumerate(skel):
                st.update(op=i, ev=0)
                mark = len(x.io_log)
                acked.setdefault(topic, [])
                delivered.setdefault(topic, 0)
                if kind == 'X':
                    # clean shutdown and restart in a fresh process; the I/O events of the reopen are crash points too
                    ops_out.append(dict(op='restart_process'))
                    st.update(op='%s+drop' % i, ev=0)        # the Drop impls run inside the restart op (own event numbering)
                    mark = len(x.io_log)
                    engine.drop_value(x, w)
                    events_per_op.append([k_ for k_, _ in x.io_log[mark:]])
                    envmodel.reset_process(x)
                    st.update(op='%s+open' % i, ev=0)
                    mark = len(x.io_log)
                    ops_out.append(dict(op='open'))
                    r = openw()
                    if r.variant != 'Ok':
                        return dict(job=job, verdict='cex', kind='recover-failed', detail='clean reopen returned Err', ops=ops_out, witness=minimise(x, list(vars_)), crash=None)
                    w = r.f[0]
                    events_per_op.append([k_ for k_, _ in x.io_log[mark:]])
                    continue
                if kind in ('a', 'A'):
                    ents = []
                    for _ in range(n):
                        j = len(sizes)
                        if conc:
                            s = BV(bv64(conc['sizes'][j]), 64)
                        else:
                            s = x.symbv('size%d' % j)
                            x.solver.add(z3.ULE(s.t, sizecap))
                        sizes.append(s)
                        vars_.append(('size%d' % j, s.t))
                        ents.append((uid, s, j))
                        size_of[uid] = s
                        uid += 1
                    inflight = ('append', topic, [u for u, _, _ in ents])
                    ops_out.append(dict(op='append' if kind == 'a' else 'batch_append', topic=topic,
                                        entries=[dict(uid=u, len='size%d' % j) for u, s, j in ents]))
                    if kind == 'a':
                        res = engine.api(x, w, 'append_for_topic', [PStr(topic), engine.payload(ents[0][0], ents[0][1].t)])
                    else:
                        res = engine.api(x, w, 'batch_append_for_topic', [PStr(topic), VVec([engine.payload(u, s.t) for u, s, _ in ents])])
                    if res.variant == 'Ok':
                        acked[topic].extend(u for u, _, _ in ents)
                    elif res.variant == 'Panic':
                        return dict(job=job, verdict='cex', kind='panic', detail='append panicked: %s' % res.f[0], ops=ops_out, witness=minimise(x, list(vars_)), crash=None)
                    inflight = None
                else:
                    checkpoint = kind in ('n', 'b', 'B')
                    inflight = ('read', topic, kind) if checkpoint else None
                    if kind in ('n', 'p'):
                        ops_out.append(dict(op='read_next', topic=topic, checkpoint=checkpoint))
                        res = engine.api(x, w, 'read_next', [PStr(topic), checkpoint])
                    else:
                        j = len(budgets)
                        if kind == 'B':
                            b = BV(bv64(MAXU), 64)
                        elif conc:
                            b = BV(bv64(conc['budgets'][j]), 64)
                        else:
                            b = x.symbv('budget%d' % j)
                            vars_.append(('budget%d' % j, b.t))
                        budgets.append(b)
                        ops_out.append(dict(op='batch_read', topic=topic, checkpoint=checkpoint, budget=(MAXU if kind == 'B' else 'budget%d' % j)))
                        res = engine.api(x, w, 'batch_read_for_topic', [PStr(topic), b, checkpoint, NONE])
                    if res.variant != 'Ok':
                        return dict(job=job, verdict='cex', kind='read-error', detail='read failed before the crash: %s' % res.variant, ops=ops_out, witness=minimise(x, list(vars_)), crash=None)
                    if kind in ('n', 'p'):
                        o = x.deref(res.f[0])
                        k = 1 if o.variant == 'Some' else 0
                    else:
                        k = len(x.deref(res.f[0]).items)
                    if checkpoint:
                        delivered[topic] += k
                    inflight = None
                events_per_op.append([k_ for k_, _ in x.io_log[mark:]])
            if not job.get('trace_only'):
                # the process may also die (the power may also fail) after the last operation has returned
                st.update(op='end', ev=0)
                inflight = None
                ops_out.append(dict(op='abort_now', abort_at_event=1))
                envmodel.io_event(x, 'end', '')
        except Crash:
            pass
        st['armed'] = False
        if st['crashed'] is None:
            if not job.get('trace_only'):
                raise PathEnd()            # histories without a crash are C06's subject
            return dict(job=job, verdict='trace', events=events_per_op, ops=ops_out)
        crash_op, crash_ev, crash_kind = st['crashed']
        n_pre = {t_: len(v_) for t_, v_ in acked.items()}      # appends acknowledged before the crash (later ones follow the in-flight entries)
        directives = None
        if power:
            directives = apply_power_loss(x)
            x.last_directives = directives
            for j, d in enumerate(directives):
                if d['t'] == 'zero_range':
                    vars_.append(('pl_off%d' % j, d.pop('_off')))
                    vars_.append(('pl_len%d' % j, d.pop('_len')))
                    d['off'], d['len'] = 'pl_off%d' % j, 'pl_len%d' % j
        # ---- the process is gone; a fresh process recovers
        envmodel.reset_process(x)
        try:
            r = openw()
        except Panic as p:
            return dict(job=job, verdict='cex', kind='recover-panic', detail='recovery panicked: %s' % p, ops=ops_out, witness=minimise(x, list(vars_)),
                        crash=[crash_op, crash_ev, crash_kind])
        if r.variant != 'Ok':
            return dict(job=job, verdict='cex', kind='recover-failed', detail='reopen after the crash returned Err', ops=ops_out, witness=minimise(x, list(vars_)),
                        crash=[crash_op, crash_ev, crash_kind])
        w2 = r.f[0]
        ops_post = []
        for kind, topic, n in parse_skel(job['post']) if job.get('post') else []:
            if kind == 'a':
                j = len(sizes)
                s = BV(bv64(conc['sizes'][j]), 64) if conc else x.symbv('size%d' % j)
                if not conc:
                    x.solver.add(z3.ULE(s.t, sizecap))
                sizes.append(s)
                vars_.append(('size%d' % j, s.t))
                size_of[uid] = s
                res = engine.api(x, w2, 'append_for_topic', [PStr(topic), engine.payload(uid, s.t)])
                ops_post.append(dict(op='append', topic=topic, entries=[dict(uid=uid, len='size%d' % j)]))
                if res.variant == 'Ok':
                    acked.setdefault(topic, []).append(uid)
                    delivered.setdefault(topic, 0)
                elif res.variant == 'Panic':
                    return dict(job=job, verdict='cex', kind='panic', detail='append after recovery panicked: %s' % res.f[0], ops=ops_out, post=ops_post, witness=minimise(x, list(vars_)), crash=[crash_op, crash_ev, crash_kind])
                uid += 1
            elif kind == 'X':
                ops_post.append(dict(op='restart_process'))
                ops_post.append(dict(op='open'))
                engine.drop_value(x, w2)
                envmodel.reset_process(x)
                try:
                    r = openw()
                except Panic as p:
                    return dict(job=job, verdict='cex', kind='recover-panic', detail='second recovery panicked: %s' % p, ops=ops_out, post=ops_post, witness=minimise(x, list(vars_)), crash=[crash_op, crash_ev, crash_kind])
                if r.variant != 'Ok':
                    return dict(job=job, verdict='cex', kind='recover-failed', detail='second reopen returned Err', ops=ops_out, post=ops_post, witness=minimise(x, list(vars_)), crash=[crash_op, crash_ev, crash_kind])
                w2 = r.f[0]
        drained = {}
        bad = None
        for topic in sorted(acked):
            got = []
            for _ in range(len(acked[topic]) + 6):
                if job.get('drain') == 'batch':
                    # the first consuming call after the restart is a batch read (unbounded budget)
                    res = engine.api(x, w2, 'batch_read_for_topic', [PStr(topic), BV(bv64(MAXU), 64), True, NONE])
                    if res.variant != 'Ok':
                        bad = ('read-error', 'batch read after recovery failed')
                        break
                    items = x.deref(res.f[0]).items
                    if not items:
                        break
                    got.extend(items)
                    continue
                res = engine.api(x, w2, 'read_next', [PStr(topic), True])
                if res.variant != 'Ok':
                    bad = ('read-error', 'read_next after recovery failed')
                    break
                o = x.deref(res.f[0])
                if o.variant != 'Some':
                    break
                got.append(o.f[0])
            drained[topic] = got
        # ---- oracle
        summary = {}
        if bad is None:
            for topic in sorted(acked):
                got = drained[topic]
                ack = acked[topic]
                d = delivered[topic]
                infl = inflight[2] if inflight and inflight[0] == 'append' and inflight[1] == topic else []
                read_inflight = inflight[2] if inflight and inflight[0] == 'read' and inflight[1] == topic else None
                # identify every drained entry (uid) with the solver
                ids = []
                for en in got:
                    cands = []
                    pool = ack + infl
                    if conc and len(pool) > 16:
                        # concrete sizes: a non-empty entry can only equal the payload whose descriptor it carries
                        chs = engine.entry_chunks(x, en)
                        if len(chs) == 1 and isinstance(chs[0], Opaque) and chs[0].uid in size_of:
                            pool = [chs[0].uid]
                    for u in pool:
                        eq = engine.entry_is(x, en, u, size_of[u].t)
                        if eq is True or (eq is not False and x.valid(eq)):
                            cands.append(u)
                    # entries with provably equal (e.g. empty) payloads are interchangeable: all of them are mapped to
                    # the smallest such uid, in the drained stream and in the expected streams alike
                    ids.append(min(cands) if cands else None)
                canon = {}
                for u in ack + infl:
                    for v in sorted(ack + infl):
                        if v == u or (v < u and x.valid(z3.And(size_of[u].t == 0, size_of[v].t == 0))):
                            canon[u] = v
                            break
                ack_uids, infl_uids = ack, infl
                ack = [canon[u] for u in ack]
                infl = [canon[u] for u in infl]
                ids = [canon.get(u, u) for u in ids]
                summary[topic] = dict(acked=ack, delivered=d, inflight=infl, drained=ids)
                if None in ids:
                    bad = ('c07-foreign', 'topic %s: an entry returned after recovery is none of the appended entries: %s' % (topic, [engine.describe_entry(x, e_) for e_ in got]))
                    break
                # possible resume positions
                if consistency == 'StrictlyAtOnce':
                    lo = d
                    hi = d if read_inflight is None else (d + 1 if read_inflight == 'n' else len(ack))
                else:
                    lo = 0
                    hi = d if read_inflight is None else (d + 1 if read_inflight == 'n' else len(ack))
                ok = False
                npre = n_pre.get(topic, 0)
                pre, postack = ack[:npre], ack[npre:]
                for start in range(lo, hi + 1):
                    # acknowledged before the crash (from the resume position), then a prefix (in order) of the in-flight
                    # append's entries, then what was appended after the recovery
                    for k in range(len(infl) + 1):
                        if ids == pre[start:] + infl[:k] + postack:
                            ok = True
                            cls = (start, k)
                            break
                    if ok:
                        break
                if not ok:
                    if consistency == 'StrictlyAtOnce' and len(ids) >= 1 and ids[0] in ack and ack.index(ids[0]) < d:
                        bad = ('c09-redelivery', 'topic %s: entry %s was returned by a completed consuming read before the crash and is delivered again' % (topic, ids[0]))
                    elif (d > 0 or read_inflight is not None) and len(ids) < len(pre[hi:] + postack) and (pre[hi:] + postack)[len(pre[hi:] + postack) - len(ids):] == ids:
                        # the consumer resumes further on than any allowed position: a front part of the pending stream is gone
                        full = pre[hi:] + postack
                        bad = ('c09-skip', 'topic %s: the consumer (position %d before the crash) resumes at %s; entries %s were never delivered' % (topic, d, ids[:1] or 'the end', full[:len(full) - len(ids)]))
                    else:
                        bad = ('c07-lost', 'topic %s: acknowledged %s (consumed %d), in flight %s, recovered stream %s' % (topic, ack, d, infl, ids))
                    break
                if infl and len(infl) > 1 and 0 < cls[1] < len(infl):
                    bad = ('c08-partial-batch', 'topic %s: batch %s was in flight, recovery exposes only %s' % (topic, infl, infl[:cls[1]]))
                    break
        if bad:
            return dict(job=job, verdict='cex', kind=bad[0], detail=bad[1], ops=ops_out, post=ops_post, witness=minimise(x, list(vars_)), crash=[crash_op, crash_ev, crash_kind],
                        summary=summary, flags=sorted(x.path_flags))
        wit = x.model_values(dict(vars_)) if cfg.get('witness', True) and not conc else None
        return dict(job=job, verdict='ok', ops=ops_out, post=ops_post, witness=wit, crash=[crash_op, crash_ev, crash_kind], summary=summary, flags=sorted(x.path_flags))
    if power:
        def driver_p(x):
            r = driver(x)
            if isinstance(r, dict):
                r['power_loss'] = getattr(x, 'last_directives', None)
            return r
        return x, driver_p
    return x, driver
