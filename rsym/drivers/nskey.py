"""C14: namespace key -> directory. sanitize_namespace + WalPathManager constructors over symbolic key strings."""
import z3

from ..core import Exec, Program
from ..values import *  # noqa

FILES = ['src/wal/config.rs', 'src/wal/paths.rs']


class PathV:
    def __init__(s, comps):
        s.comps = list(comps)


def mk(docs, job, cfg):
    x = Exec(Program(docs), query_timeout_ms=cfg.get('qt', 20000), seed=cfg.get('seed', 0))
    x.symbolic_strings = True
    n = job['len']
    ctor = job['ctor']

    def f_pathbuf_from(x, a, e):
        v = x.deref(a[0])
        return v if isinstance(v, PathV) else PathV([x.to_vstr(v)])

    def m_push(x, r, a, e):
        comp = x.to_vstr(a[0])
        if comp.c and x.branch(comp.c[0] == 47):
            r.comps = [comp]          # pushing an absolute path replaces the buffer
        else:
            r.comps.append(comp)
        return UNIT
    x.fn_models['PathBuf::from'] = f_pathbuf_from
    x.method_models[('PathV', 'push')] = m_push
    x.fn_models['checksum64'] = lambda x, a, e: x.symbv('fnv')
    def f_var_os(x, a, e):
        if getattr(x, 'env_dir', None) is not None:
            return Some(PathV([VStr([z3.IntVal(ord(c)) for c in x.env_dir])]))
        return Some(PathV([VStr([z3.IntVal(ord(c)) for c in '/data'])])) if x.flip('env_data_dir_set') else NONE
    x.fn_models['std::env::var_os'] = f_var_os

    def driver_env_twice(x):
        # two constructions in one process with WALRUS_DATA_DIR changed in between: each root must lie in the
        # data directory configured at its own construction (C13: instances whose data directories differ)
        key = VStr([z3.IntVal(ord(c)) for c in 'tenant'])
        x.fn_models['thread_namespace'] = lambda x, a, e: NONE
        x.fn_models['std::env::var'] = lambda x, a, e: Err(PStr('NotPresent'))
        roots = []
        for d in ('/data1', '/data2'):
            x.env_dir = d
            pm = x.call('WalPathManager', 'for_key', [key]) if job.get('via', 'for_key') == 'for_key' else x.call('WalPathManager', 'default', [])
            root = x.deref(x.deref(pm).f['root'])
            first = ''.join(chr(x.concretize(c)) for c in root.comps[0].c)
            roots.append(first)
            if first != d:
                return dict(job=job, verdict='cex', detail='instance constructed with WALRUS_DATA_DIR=%s got root under %s' % (d, first), witness=dict(key='tenant', ctor='env_twice', dirs=['/data1', '/data2']))
        return dict(job=job, verdict='ok', witness=dict(key='tenant', ctor='env_twice', roots=roots))
    if ctor == 'env_twice':
        return x, driver_env_twice

    def driver(x):
        if 'key' in job:
            key = VStr([z3.IntVal(c) for c in job['key']])
        else:
            key = VStr([x.symint('k') for _ in range(n)])
            for c in key.c:
                x.solver.add(c >= 0, c < 0x110000, z3.Or(c < 0xD800, c > 0xDFFF))
        x.fn_models['thread_namespace'] = lambda x, a, e: Some(key) if ctor == 'default_thread' else NONE
        x.fn_models['std::env::var'] = lambda x, a, e: Ok(key) if ctor == 'default_env' else Err(PStr('NotPresent'))
        if ctor == 'with_data_dir':
            pm = x.call('WalPathManager', 'with_data_dir', [PathV([VStr([z3.IntVal(ord(c)) for c in '/data'])]), Some(key)])
        elif ctor == 'for_key':
            pm = x.call('WalPathManager', 'for_key', [key])
        else:
            pm = x.call('WalPathManager', 'default', [])
        root = x.deref(x.deref(pm).f['root'])
        out = dict(job=job, verdict='ok')
        bad = None
        why = None
        if len(root.comps) != 2:
            bad, why = True, 'root has %d components (expected data dir + one private component)' % len(root.comps)
        else:
            comp = root.comps[1].c
            out['component_len'] = len(comp)
            if len(comp) == 0:
                bad, why = True, 'empty directory component (root is the data dir itself)'
            else:
                sep = z3.Or([z3.Or(c == 47, c == 0) for c in comp])
                dot = z3.And([c == 46 for c in comp]) if len(comp) in (1, 2) else False
                cond = x.lor(sep, dot)
                if x.sat(cond):
                    x.solver.add(cond)
                    bad, why = True, 'component may contain a separator/NUL or be "." / ".."'
        terms = dict(('k%d' % i, c) for i, c in enumerate(key.c))
        m = x.model_values(terms) if 'key' not in job else None
        wit = [m['k%d' % i] for i in range(n)] if m else job.get('key')
        out['witness'] = dict(key=wit, ctor=ctor)
        if 'key' in job and len(root.comps) == 2:
            out['component'] = [x.concretize(c) for c in root.comps[1].c]
        if bad:
            out.update(verdict='cex', detail=why)
        return out
    return x, driver
