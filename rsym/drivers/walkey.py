"""C25: wal_key / parse_wal_key round trip over symbolic topic strings and all u64 segments."""
import z3

from ..core import Exec, Program
from ..values import *  # noqa

FILES = ['distributed-walrus/src/controller/types.rs']


def mk(docs, job, cfg):
    x = Exec(Program(docs), query_timeout_ms=cfg.get('qt', 20000), seed=cfg.get('seed', 0))
    x.symbolic_strings = True
    n = job['len']

    def driver(x):
        if 'topic' in job:      # concrete mode (differential validation of the interpreter + library models)
            topic = VStr([z3.IntVal(c) for c in job['topic']])
            seg = IntU(z3.IntVal(job['segment']))
        else:
            topic = VStr([x.symint('t') for _ in range(n)])
            for c in topic.c:
                x.solver.add(c >= 0, c < 0x110000, z3.Or(c < 0xD800, c > 0xDFFF))
            seg = IntU(x.symint('seg'))
            x.solver.add(seg.t >= 0, seg.t < 2 ** 64)
        key = x.call(None, 'wal_key', [topic, seg])
        res = x.deref(x.call(None, 'parse_wal_key', [key]))
        if res.variant != 'Some':
            bad = True
        else:
            t2, s2 = res.f[0]
            t2 = x.to_vstr(t2)
            if len(t2.c) != n:
                bad = True
            else:
                eq = z3.And([a == b for a, b in zip(t2.c, topic.c)] + [s2.t == seg.t])
                bad = z3.Not(eq)
        out = dict(job=job, keylen=len(key.c), verdict='ok')
        if 'topic' in job:
            out['key'] = [x.concretize(c) for c in key.c]
            out['some'] = res.variant == 'Some'
            if out['some']:
                out['ptopic'] = [x.concretize(c) for c in x.to_vstr(res.f[0][0]).c]
                out['pseg'] = x.concretize(res.f[0][1].t)
        if bad is True or x.sat(bad):
            if bad is not True:
                x.solver.add(bad)
            m = x.model_values(dict([('seg', seg.t)] + [('t%d' % i, c) for i, c in enumerate(topic.c)]))
            out.update(verdict='cex', witness=dict(topic=[m['t%d' % i] for i in range(n)], segment=m['seg']) if m else None,
                       got='None' if res.variant != 'Some' else 'different pair')
        else:
            m = x.model_values(dict([('seg', seg.t)] + [('t%d' % i, c) for i, c in enumerate(topic.c)]))
            out['witness'] = dict(topic=[m['t%d' % i] for i in range(n)], segment=m['seg']) if m else None
        return out
    return x, driver
