"""Driver `conc` (C05): two model threads, each running one real API call from source, serialised by a baton.
Scheduling points = acquisitions of tracked locks (per-topic ColReaderInfo lock, writer mutexes, the reader map)
and the batch flag atomics; a thread blocked on a held lock is not runnable. The schedule is a sequence of
driver decisions in the re-execution vector, so every schedule within the bound is explored."""
import threading

import z3

from .. import engine, envmodel
from ..values import *  # noqa: F401,F403
from .stream import minimise


class Abort(BaseException):
    pass


class Sched:
    def __init__(self, x):
        self.x = x
        self.threads = []
        self.main_evt = threading.Event()
        self.error = None
        self.aborting = False
        self.switches = 0
        self.trace = []

    def runnable(self):
        out = []
        for t in self.threads:
            if t.finished:
                continue
            l = t.blocked_on
            if l is not None:
                if l.owner not in (None, t) or (t.want_mode == 'write' and l.readers and not (l.readers == {t})):
                    continue
            out.append(t)
        return out

    def pick(self, me):
        c = self.runnable()
        if not c:
            return None
        if len(c) == 1:
            return c[0]
        first = me if me in c else c[0]
        others = [t for t in c if t is not first]
        # one decision per alternative thread (2 threads: a single flip)
        for o in others:
            if not self.x.flip('sched%d_stay' % self.switches):
                return o
        return first

    def switch_from(self, me):
        self.switches += 1
        if self.switches > 400:
            self.error = Incomplete('unwinding bound: scheduling points')
            self.aborting = True
            for t in self.threads:
                t.go.set()
            self.main_evt.set()
            raise Abort()
        if me is not None:
            me.save(self.x)
        nxt = self.pick(me)
        if nxt is None:
            self.main_evt.set()
            if me is not None and not me.finished:
                me.wait()
                me.restore(self.x)
            return
        if nxt is me:
            return
        self.trace.append(nxt.name)
        nxt.go.set()
        if me is not None and not me.finished:
            me.wait()
            me.restore(self.x)

    def acquire(self, t, lock, mode):
        self.switch_from(t)                      # scheduling point before the acquisition
        while True:
            free = lock.owner in (None, t) and (mode == 'read' or not lock.readers or lock.readers == {t})
            if free:
                break
            t.blocked_on, t.want_mode = lock, mode
            self.switch_from(t)
        t.blocked_on = None
        if mode == 'read':
            if not isinstance(lock.readers, set):
                lock.readers = set()
            lock.readers.add(t)
        else:
            lock.owner = t
        t.held.append((lock, mode))

    def release(self, t, lock):
        for i, (l, m) in enumerate(t.held):
            if l is lock:
                del t.held[i]
                if m == 'read':
                    lock.readers.discard(t)
                else:
                    lock.owner = None
                return


class MThread:
    def __init__(self, sched, name, fn):
        self.s, self.name, self.fn = sched, name, fn
        self.go = threading.Event()
        self.finished = False
        self.blocked_on = None
        self.want_mode = None
        self.held = []
        self.result = None
        self.ctx = None
        self.th = threading.Thread(target=self.run, daemon=True)

    def save(self, x):
        self.ctx = (x.stack, x.tys, x.type_hint, x.pure)

    def restore(self, x):
        x.stack, x.tys, x.type_hint, x.pure = self.ctx

    def wait(self):
        self.go.wait()
        self.go.clear()
        if self.s.aborting:
            raise Abort()

    def run(self):
        x = self.s.x
        try:
            self.wait()
            x.stack, x.tys, x.type_hint, x.pure = [], [], None, 0
            CUR.t = self
            self.result = self.fn()
        except Abort:
            self.finished = True
            return
        except BaseException as e:           # PathEnd / Unsupported / Panic ... are re-raised in the main thread
            self.s.error = self.s.error or e
        for l, m in list(self.held):
            self.s.release(self, l)
        self.finished = True
        try:
            self.s.switch_from(self)
        except Abort:
            pass
        except BaseException as e:
            self.s.error = self.s.error or e
            self.s.main_evt.set()


CUR = threading.local()


def cur_thread():
    return getattr(CUR, 't', None)


OPS = {'n': 'read_next', 'b': 'batch_read', 'a': 'append', 'A': 'batch_append'}


def mk(docs, job, cfg):
    cfg = dict(cfg, **job.get('cfg', {}))
    x = engine.mk_exec(docs, cfg)
    prefix = job.get('prefix', 'a')          # sequential prefix: string of a/A2/n
    t_ops = job['threads']                   # e.g. ['n', 'n'] or ['a', 'n'] or ['A', 'b']
    consistency = job.get('consistency', 'StrictlyAtOnce')
    sizecap = job.get('sizecap', 4096)

    def tracked(lock):
        v = lock.cell.v
        if isinstance(v, Struct) and v.name in ('ColReaderInfo', 'Block'):
            return True
        if isinstance(v, BV):                       # Writer.current_offset
            return True
        return isinstance(v, VMap)                  # reader map / writers map / counts

    def on_acquire(lock, mode):
        t = cur_thread()
        if t is not None and tracked(lock):
            x.sched.acquire(t, lock, mode)

    def on_release(g):
        t = cur_thread()
        if t is not None:
            x.sched.release(t, g.lock)

    def on_atomic(a):
        t = cur_thread()
        if t is not None and getattr(a, 'bits', None) is None:      # AtomicBool (batch flag)
            x.sched.switch_from(t)

    def driver(x):
        engine.new_world(x, fd_backend=job.get('backend', 'fd') == 'fd')
        pe = BV(z3.BitVecVal(job.get('persist_every', 1), 32), 32) if consistency == 'AtLeastOnce' else None
        r = engine.open_walrus(x, consistency, pe)
        w = r.f[0]
        vars_ = []
        uid = 0
        queue = []
        sizes = {}
        ops_out = []

        def new_entries(n):
            nonlocal uid
            ents = []
            for _ in range(n):
                s = x.symbv('size%d' % uid)
                x.solver.add(z3.ULE(s.t, sizecap), z3.UGE(s.t, 1))
                vars_.append(('size%d' % uid, s.t))
                sizes[uid] = s
                ents.append(uid)
                uid += 1
            return ents
        delivered_seq = 0
        for tok in [p for p in prefix.split(',') if p]:
            if tok[0] == 'a':
                e = new_entries(1)
                res = engine.api(x, w, 'append_for_topic', [PStr('t'), engine.payload(e[0], sizes[e[0]].t)])
                ops_out.append(dict(op='append', topic='t', entries=[dict(uid=e[0], len='size%d' % e[0])]))
                queue += e
            elif tok[0] == 'A':
                e = new_entries(int(tok[1:] or 2))
                res = engine.api(x, w, 'batch_append_for_topic', [PStr('t'), VVec([engine.payload(u, sizes[u].t) for u in e])])
                ops_out.append(dict(op='batch_append', topic='t', entries=[dict(uid=u, len='size%d' % u) for u in e]))
                queue += e
            elif tok[0] == 'n':
                res = engine.api(x, w, 'read_next', [PStr('t'), True])
                ops_out.append(dict(op='read_next', topic='t', checkpoint=True))
                if res.variant == 'Ok' and x.deref(res.f[0]).variant == 'Some':
                    delivered_seq += 1
        sched = Sched(x)
        x.sched = sched
        x.on_acquire, x.on_release, x.on_atomic = on_acquire, on_release, on_atomic
        budgets = []
        thread_entries = {}

        def mkthread(i, op):
            def fn():
                if op == 'n':
                    res = engine.api(x, w, 'read_next', [PStr('t'), True])
                    if res.variant != 'Ok':
                        return ('err', res.variant)
                    o = x.deref(res.f[0])
                    return ('read', [o.f[0]] if o.variant == 'Some' else [])
                if op == 'b':
                    res = engine.api(x, w, 'batch_read_for_topic', [PStr('t'), budgets[i], True, NONE])
                    if res.variant != 'Ok':
                        return ('err', res.variant)
                    return ('read', list(x.deref(res.f[0]).items))
                if op == 'a':
                    u = thread_entries[i][0]
                    res = engine.api(x, w, 'append_for_topic', [PStr('t'), engine.payload(u, sizes[u].t)])
                    return ('append', res.variant)
                if op == 'A':
                    res = engine.api(x, w, 'batch_append_for_topic', [PStr('t'), VVec([engine.payload(u, sizes[u].t) for u in thread_entries[i]])])
                    return ('append', res.variant if res.variant != 'Err' else 'Err:' + engine.errkind(x, res))
            return MThread(sched, 'T%d' % i, fn)
        for i, op in enumerate(t_ops):
            if op == 'b':
                b = x.symbv('budget%d' % i)
                vars_.append(('budget%d' % i, b.t))
                budgets.append(b)
            else:
                budgets.append(None)
            if op == 'a':
                thread_entries[i] = new_entries(1)
            elif op == 'A':
                thread_entries[i] = new_entries(2)
        ths = [mkthread(i, op) for i, op in enumerate(t_ops)]
        sched.threads = ths
        for t in ths:
            t.th.start()
        try:
            sched.switch_from(None)
            sched.main_evt.wait(120)
        finally:
            if not all(t.finished for t in ths):
                sched.aborting = True
                for t in ths:
                    t.go.set()
            x.on_acquire = x.on_release = x.on_atomic = None
            for t in ths:
                t.th.join(5)
        x.stack, x.tys, x.type_hint, x.pure = [], [], None, 0
        if sched.error:
            raise sched.error
        # ---- oracle: linearised union of consuming reads = exactly-once, per-producer order, batch contiguity
        appended_ok = list(queue)
        for i, op in enumerate(t_ops):
            if op in ('a', 'A') and ths[i].result == ('append', 'Ok'):
                appended_ok_extra = thread_entries[i]
            else:
                appended_ok_extra = []
            appended_ok += appended_ok_extra
        got = []
        per_thread = []
        for i, op in enumerate(t_ops):
            r_ = ths[i].result
            if r_ and r_[0] == 'read':
                ids = []
                for en in r_[1]:
                    cands = [u for u in sizes if (lambda eq: eq is True or (eq is not False and x.valid(eq)))(engine.entry_is(x, en, u, sizes[u].t))]
                    ids.append(cands[0] if len(cands) == 1 else (cands[0] if cands else None))
                per_thread.append(ids)
                got += ids
            else:
                per_thread.append(r_)
        # after the concurrent phase drain sequentially
        drained = []
        for _ in range(len(appended_ok) + 2):
            res = engine.api(x, w, 'read_next', [PStr('t'), True])
            if res.variant != 'Ok':
                break
            o = x.deref(res.f[0])
            if o.variant != 'Some':
                break
            cands = [u for u in sizes if (lambda eq: eq is True or (eq is not False and x.valid(eq)))(engine.entry_is(x, o.f[0], u, sizes[u].t))]
            drained.append(cands[0] if cands else None)
        pending = appended_ok[delivered_seq:]
        alld = got + drained
        bad = None
        dup = [u for u in set(alld) if u is not None and alld.count(u) > 1]
        if dup:
            bad = ('duplicate', 'entry %s was returned by %d consuming reads (threads %s, then drain %s)' % (dup[0], alld.count(dup[0]), per_thread, drained))
        elif None in alld:
            bad = ('foreign', 'a consuming read returned a payload that is no appended entry (%s / %s)' % (per_thread, drained))
        elif sorted(alld) != sorted(pending):
            lost = [u for u in pending if u not in alld]
            bad = ('lost', 'entries %s were appended successfully and never returned (threads %s, drain %s)' % (lost, per_thread, drained))
        else:
            # batch contiguity / producer order inside each single read result and in the drain
            for seq in [ids for ids in per_thread if isinstance(ids, list)] + [drained]:
                pos = [pending.index(u) for u in seq]
                if pos != sorted(pos):
                    bad = ('order', 'a read returned entries out of append order: %s' % seq)
        res_out = dict(job=job, threads=t_ops, schedule=list(sched.trace), per_thread=[p if isinstance(p, list) else list(p) if p else None for p in per_thread],
                       drained=drained, ops=ops_out, thread_entries={str(k): v for k, v in thread_entries.items()})
        if bad:
            res_out.update(verdict='cex', kind=bad[0], detail=bad[1], witness=minimise(x, list(vars_)))
        else:
            res_out.update(verdict='ok', witness=x.model_values(dict(vars_)))
        return res_out
    return x, driver
