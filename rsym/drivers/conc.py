"""Driver `conc` (C05): two or three model threads, each running real API calls from source, serialised by a baton.
Scheduling points = the calls `crate::wal::verif::sched_point(site)` in the source (cfg(walrus_verif) hook lines,
interpreted only by this driver): named points of the read/append paths at which the calling thread holds no lock.
Between two points a thread runs alone (natively the controller of the replayer enforces the same). The schedule is
a sequence of driver decisions in the re-execution vector, so every schedule within the preemption bound is explored;
the list of threads released at successive points is the replay schedule."""
import threading

import z3

from .. import engine, envmodel
from ..values import *  # noqa: F401,F403
from .stream import minimise


class Abort(BaseException):
    pass


class Sched:
    def __init__(self, x):
        self.x = x
        self.threads = []
        self.main_evt = threading.Event()
        self.error = None
        self.aborting = False
        self.switches = 0
        self.preemptions = 0
        self.max_preemptions = 2
        self.trace = []
        self.sites = []

    def runnable(self):
        return [t for t in self.threads if not t.finished]

    def pick(self, me):
        c = self.runnable()
        if not c:
            return None
        if len(c) == 1:
            return c[0]
        if me is not None and me in c:
            # preemption bound: switching away from a thread that could go on counts
            if self.preemptions >= self.max_preemptions:
                return me
            for o in [t for t in c if t is not me]:
                if self.x.flip('sched%d_preempt_by_%s' % (self.switches, o.name)):
                    self.preemptions += 1
                    return o
            return me
        for o in c[:-1]:
            if self.x.flip('sched%d_start_%s' % (self.switches, o.name)):
                return o
        return c[-1]

    def switch_from(self, me, site=None):
        self.switches += 1
        if self.switches > 400:
            self.error = Incomplete('unwinding bound: scheduling points')
            self.aborting = True
            for t in self.threads:
                t.go.set()
            self.main_evt.set()
            raise Abort()
        if me is not None:
            me.save(self.x)
        nxt = self.pick(me)
        if nxt is None:
            self.main_evt.set()
            return
        self.trace.append(nxt.name)
        self.sites.append((me.name if me else None, site))
        if nxt is me:
            return
        nxt.go.set()
        if me is not None and not me.finished:
            me.wait()
            me.restore(self.x)


class MThread:
    def __init__(self, sched, name, fn):
        self.s, self.name, self.fn = sched, name, fn
        self.go = threading.Event()
        self.finished = False
        self.blocked_on = None
        self.want_mode = None
        self.held = []
        self.result = None
        self.ctx = None
        self.th = threading.Thread(target=self.run, daemon=True)

    def save(self, x):
        self.ctx = (x.stack, x.tys, x.type_hint, x.pure)

    def restore(self, x):
        x.stack, x.tys, x.type_hint, x.pure = self.ctx

    def wait(self):
        self.go.wait()
        self.go.clear()
        if self.s.aborting:
            raise Abort()

    def run(self):
        x = self.s.x
        try:
            self.wait()
            x.stack, x.tys, x.type_hint, x.pure = [], [], None, 0
            CUR.t = self
            self.result = self.fn()
        except Abort:
            self.finished = True
            return
        except BaseException as e:           # PathEnd / Unsupported / Panic ... are re-raised in the main thread
            self.s.error = self.s.error or e
        self.finished = True
        try:
            self.s.switch_from(self)
        except Abort:
            pass
        except BaseException as e:
            self.s.error = self.s.error or e
            self.s.main_evt.set()


CUR = threading.local()


def cur_thread():
    return getattr(CUR, 't', None)


def mk(docs, job, cfg):
    from .. import core
    core.EXTRA_CFGS.add('cfg(walrus_verif)')          # the hook lines are part of the program for this driver
    cfg = dict(cfg, **job.get('cfg', {}))
    x = engine.mk_exec(docs, cfg)
    prefix = job.get('prefix', 'a')          # sequential prefix: comma list of a / A<n> / n
    t_ops = [t.split(',') for t in job['threads']]     # e.g. ['n', 'n'] or ['a,a', 'n,n'] or ['A2', 'b']
    consistency = job.get('consistency', 'StrictlyAtOnce')
    sizecap = job.get('sizecap', 4096)

    def f_sched_point(x, a, e):
        t = cur_thread()
        if t is not None:
            site = x.deref(a[0])
            x.sched.switch_from(t, getattr(site, 'v', str(site)))
        return UNIT
    x.fn_models['crate::wal::verif::sched_point'] = f_sched_point
    x.fn_models['crate::wal::verif::io_event'] = lambda x, a, e: UNIT
    x.fn_models['crate::wal::verif::fault'] = lambda x, a, e: False

    def driver(x):
        engine.new_world(x, fd_backend=job.get('backend', 'fd') == 'fd')
        pe = BV(z3.BitVecVal(job.get('persist_every', 1), 32), 32) if consistency == 'AtLeastOnce' else None
        r = engine.open_walrus(x, consistency, pe)
        w = r.f[0]
        vars_ = []
        uid = 0
        sizes = {}
        producer = {}          # uid -> producer name ('P' = prefix, 'T<i>')
        batch_of = {}          # uid -> batch id
        ops_out = []
        nb = [0]

        def new_entries(n, who):
            nonlocal uid
            ents = []
            nb[0] += 1
            for _ in range(n):
                s = x.symbv('size%d' % uid)
                x.solver.add(z3.ULE(s.t, sizecap), z3.UGE(s.t, 1))
                vars_.append(('size%d' % uid, s.t))
                sizes[uid] = s
                producer[uid] = who
                batch_of[uid] = nb[0]
                ents.append(uid)
                uid += 1
            return ents

        def identify(en):
            cands = [u for u in sizes if (lambda eq: eq is True or (eq is not False and x.valid(eq)))(engine.entry_is(x, en, u, sizes[u].t))]
            return cands[0] if cands else None
        acked = []             # (uid) of successful appends, any producer
        consumed_prefix = []
        for tok in [p_ for p_ in prefix.split(',') if p_]:
            if tok[0] == 'a':
                e = new_entries(1, 'P')
                res = engine.api(x, w, 'append_for_topic', [PStr('t'), engine.payload(e[0], sizes[e[0]].t)])
                ops_out.append(dict(op='append', topic='t', entries=[dict(uid=e[0], len='size%d' % e[0])]))
                if res.variant == 'Ok':
                    acked += e
            elif tok[0] == 'A':
                e = new_entries(int(tok[1:] or 2), 'P')
                res = engine.api(x, w, 'batch_append_for_topic', [PStr('t'), VVec([engine.payload(u, sizes[u].t) for u in e])])
                ops_out.append(dict(op='batch_append', topic='t', entries=[dict(uid=u, len='size%d' % u) for u in e]))
                if res.variant == 'Ok':
                    acked += e
            elif tok[0] == 'n':
                res = engine.api(x, w, 'read_next', [PStr('t'), True])
                ops_out.append(dict(op='read_next', topic='t', checkpoint=True))
                if res.variant == 'Ok' and x.deref(res.f[0]).variant == 'Some':
                    consumed_prefix.append(identify(x.deref(res.f[0]).f[0]))
        sched = Sched(x)
        sched.max_preemptions = job.get('preemptions', 2)
        x.sched = sched
        thread_script = []     # per thread: list of op dicts for the replayer
        plans = []
        for i, ops in enumerate(t_ops):
            plan, script = [], []
            for j, op in enumerate(ops):
                if op[0] == 'a':
                    e = new_entries(1, 'T%d' % i)
                    plan.append(('a', e))
                    script.append(dict(op='append', topic='t', entries=[dict(uid=e[0], len='size%d' % e[0])]))
                elif op[0] == 'A':
                    e = new_entries(int(op[1:] or 2), 'T%d' % i)
                    plan.append(('A', e))
                    script.append(dict(op='batch_append', topic='t', entries=[dict(uid=u, len='size%d' % u) for u in e]))
                elif op[0] == 'n':
                    plan.append(('n', None))
                    script.append(dict(op='read_next', topic='t', checkpoint=True))
                elif op[0] == 'b':
                    b = x.symbv('budget%d_%d' % (i, j))
                    vars_.append(('budget%d_%d' % (i, j), b.t))
                    plan.append(('b', b))
                    script.append(dict(op='batch_read', topic='t', checkpoint=True, budget='budget%d_%d' % (i, j)))
            plans.append(plan)
            thread_script.append(script)

        def mkthread(i):
            def fn():
                out = []
                for kind, arg in plans[i]:
                    if kind == 'n':
                        res = engine.api(x, w, 'read_next', [PStr('t'), True])
                        if res.variant != 'Ok':
                            out.append(('err', res.variant))
                            continue
                        o = x.deref(res.f[0])
                        out.append(('read', [o.f[0]] if o.variant == 'Some' else []))
                    elif kind == 'b':
                        res = engine.api(x, w, 'batch_read_for_topic', [PStr('t'), arg, True, NONE])
                        out.append(('read', list(x.deref(res.f[0]).items)) if res.variant == 'Ok' else ('err', res.variant))
                    elif kind == 'a':
                        res = engine.api(x, w, 'append_for_topic', [PStr('t'), engine.payload(arg[0], sizes[arg[0]].t)])
                        out.append(('append', res.variant, arg))
                    elif kind == 'A':
                        res = engine.api(x, w, 'batch_append_for_topic', [PStr('t'), VVec([engine.payload(u, sizes[u].t) for u in arg])])
                        out.append(('append', res.variant, arg))
                return out
            return MThread(sched, 'T%d' % i, fn)
        ths = [mkthread(i) for i in range(len(t_ops))]
        sched.threads = ths
        for t in ths:
            t.th.start()
        try:
            sched.switch_from(None, 'start')
            sched.main_evt.wait(300)
        finally:
            if not all(t.finished for t in ths):
                sched.aborting = True
                for t in ths:
                    t.go.set()
            for t in ths:
                t.th.join(5)
        x.stack, x.tys, x.type_hint, x.pure = [], [], None, 0
        if sched.error:
            raise sched.error
        if not all(t.finished for t in ths):
            raise Incomplete('a model thread did not finish')
        # ---- oracle
        delivered = []         # list of sequences (one per consuming call, then the drain)
        panics = []
        for i, t in enumerate(ths):
            for r_ in t.result or []:
                if r_[0] == 'append' and r_[1] == 'Ok':
                    acked += r_[2]
                elif r_[0] == 'append' and r_[1] == 'Panic':
                    panics.append('append in T%d panicked' % i)
                elif r_[0] == 'read':
                    delivered.append(('T%d' % i, [identify(en) for en in r_[1]]))
                elif r_[0] == 'err' and r_[1] == 'Panic':
                    panics.append('read in T%d panicked' % i)
        drained = []
        for _ in range(len(sizes) + 2):
            res = engine.api(x, w, 'read_next', [PStr('t'), True])
            if res.variant != 'Ok':
                break
            o = x.deref(res.f[0])
            if o.variant != 'Some':
                break
            drained.append(identify(o.f[0]))
        delivered.append(('drain', drained))
        alld = [u for _, seq in delivered for u in seq]
        pending = [u for u in acked if u not in consumed_prefix]
        bad = None
        dup = [u for u in set(alld) if u is not None and (alld.count(u) > 1 or u in consumed_prefix)]
        if panics:
            bad = ('panic', panics[0])
        elif dup:
            bad = ('duplicate', 'entry %s was returned by %d consuming reads: %s' % (dup[0], alld.count(dup[0]) + (1 if dup[0] in consumed_prefix else 0), delivered))
        elif None in alld:
            bad = ('foreign', 'a consuming read returned a payload that is no appended entry: %s' % (delivered,))
        elif sorted(alld) != sorted(pending):
            lost = [u for u in pending if u not in alld]
            extra = [u for u in alld if u not in pending]
            bad = ('lost', 'entries %s were appended successfully and never returned; unexpected %s (delivered %s)' % (lost, extra, delivered)) if lost else \
                  ('phantom', 'entries %s were returned although their append did not succeed (delivered %s)' % (extra, delivered))
        else:
            for who, seq in delivered:
                # per producer: append order; a batch contiguous within one returned sequence
                for pr in set(producer[u] for u in seq):
                    sub = [u for u in seq if producer[u] == pr]
                    if sub != sorted(sub):
                        bad = ('order', '%s returned entries of producer %s out of append order: %s' % (who, pr, seq))
                for k in range(1, len(seq) - 1):
                    if batch_of[seq[k - 1]] == batch_of[seq[k + 1]] != batch_of[seq[k]]:
                        bad = ('batch-split', '%s returned an entry of another append inside a batch: %s' % (who, seq))
        res_out = dict(job=job, threads=job['threads'], schedule=list(sched.trace), sites=[list(s_) for s_ in sched.sites], delivered=[[w_, q] for w_, q in delivered],
                       ops=ops_out, thread_ops=thread_script, acked=acked)
        if bad:
            res_out.update(verdict='cex', kind=bad[0], detail=bad[1], witness=minimise(x, list(vars_)))
        else:
            res_out.update(verdict='ok', witness=x.model_values(dict(vars_)))
        return res_out
    return x, driver
