"""C16: the same history interpreted under the FD/io_uring back end and under the mmap back end with the SAME
symbolic sizes and budgets; the oracle is equality of the two observation traces (decided by z3 per path pair)."""
import z3

from .. import engine, envmodel
from ..values import *  # noqa: F401,F403
from .stream import parse_skel, minimise, MAXU


def mk(docs, job, cfg):
    cfg = dict(cfg, **job.get('cfg', {}))
    x = engine.mk_exec(docs, cfg)
    skel = parse_skel(job['skel'])
    consistency = job.get('consistency', 'StrictlyAtOnce')
    sizecap = job.get('sizecap', cfg.get('sizecap', engine.SIZECAP))

    def run_world(x, fd, sizes, budgets, vars_, ops_out, record_ops):
        engine.new_world(x, fd_backend=fd)
        trace = []
        try:
            r = engine.open_walrus(x, consistency, None)
        except Panic as p:
            return [('open', 'Panic')]
        if r.variant != 'Ok':
            return [('open', 'Err')]
        w = r.f[0]
        si = 0
        bi = 0
        uid = 0
        for i, (kind, topic, n) in enumerate(skel):
            if topic == 'T':
                topic = 't' * job.get('topic_len', 240)     # ':T' = the long topic of this job
            if kind in ('a', 'A', 'r', 'L', 'Ar', 'AL'):
                wtopic = topic * job.get('topic_len', 240) if kind in ('L', 'AL') else topic
                ents = []
                for k in range(n):
                    if si >= len(sizes):
                        s = x.symbv('size%d' % si)
                        if kind == 'r' or (kind == 'Ar' and k == n - 1):
                            x.solver.add(z3.UGT(s.t, 2 ** 30 - 256), z3.ULE(s.t, 2 ** 30 + 2 ** 20))
                        else:
                            x.solver.add(z3.ULE(s.t, sizecap))
                        sizes.append(s)
                        vars_.append(('size%d' % si, s.t))
                    ents.append((uid, sizes[si], si))
                    si += 1
                    uid += 1
                if not kind.startswith('A'):
                    res = engine.api(x, w, 'append_for_topic', [PStr(wtopic), engine.payload(ents[0][0], ents[0][1].t)])
                else:
                    res = engine.api(x, w, 'batch_append_for_topic', [PStr(wtopic), VVec([engine.payload(u, s.t) for u, s, _ in ents])])
                if record_ops:
                    ops_out.append(dict(op='append' if not kind.startswith('A') else 'batch_append', topic=wtopic,
                                        entries=[dict(uid=u, len='size%d' % j) for u, s, j in ents]))
                trace.append(('append', res.variant if res.variant != 'Err' else 'Err:' + engine.errkind(x, res)))
                if res.variant == 'Panic':
                    return trace       # the process is gone (locks poisoned / crashed)
                continue
            if kind == 'c':
                c = engine.api(x, w, 'get_topic_entry_count', [PStr(topic)])
                if record_ops:
                    ops_out.append(dict(op='count', topic=topic))
                trace.append(('count', x.tobv(c).t))
                continue
            if kind in ('R', 'X'):
                if kind == 'X':
                    envmodel.reset_process(x)
                if record_ops:
                    ops_out.append(dict(op='reopen' if kind == 'R' else 'restart_process'))
                    if kind == 'X':
                        ops_out.append(dict(op='open'))
                try:
                    r = engine.open_walrus(x, consistency, None)
                except Panic:
                    trace.append(('open', 'Panic'))
                    return trace
                trace.append(('open', r.variant))
                if r.variant != 'Ok':
                    return trace
                w = r.f[0]
                continue
            checkpoint = kind in ('n', 'b', 'B')
            if kind in ('n', 'p'):
                res = engine.api(x, w, 'read_next', [PStr(topic), checkpoint])
                if record_ops:
                    ops_out.append(dict(op='read_next', topic=topic, checkpoint=checkpoint))
            else:
                if kind in ('B',):
                    budget = BV(bv64(MAXU), 64)
                else:
                    if bi >= len(budgets):
                        b = x.symbv('budget%d' % bi)
                        budgets.append(b)
                        vars_.append(('budget%d' % bi, b.t))
                    budget = budgets[bi]
                res = engine.api(x, w, 'batch_read_for_topic', [PStr(topic), budget, checkpoint, NONE])
                if record_ops:
                    ops_out.append(dict(op='batch_read', topic=topic, checkpoint=checkpoint, budget=(MAXU if kind == 'B' else 'budget%d' % bi)))
                if kind != 'B':
                    bi += 1
            if res.variant != 'Ok':
                trace.append(('read', res.variant if res.variant != 'Err' else 'Err:' + engine.errkind(x, res)))
                if res.variant == 'Panic':
                    return trace
                continue
            if kind in ('n', 'p'):
                o = x.deref(res.f[0])
                ents = [o.f[0]] if o.variant == 'Some' else []
            else:
                ents = list(x.deref(res.f[0]).items)
            trace.append(('read', [engine.entry_chunks(x, en) for en in ents]))
        return trace

    def driver(x):
        sizes, budgets, vars_, ops_out = [], [], [], []
        ta = run_world(x, True, sizes, budgets, vars_, ops_out, True)
        tb = run_world(x, False, sizes, budgets, vars_, [], False)
        diff = None
        for i, (a, b) in enumerate(zip(ta, tb)):
            if a[0] != b[0]:
                diff = (i, 'different operation outcome kinds %s / %s' % (a[0], b[0]))
                break
            if isinstance(a[1], str) or isinstance(b[1], str):
                if a[1] != b[1]:
                    diff = (i, 'fd: %s, mmap: %s' % (a[1] if isinstance(a[1], str) else 'Ok', b[1] if isinstance(b[1], str) else 'Ok'))
                    break
                continue
            if a[0] == 'count':
                if x.sat(a[1] != b[1]):
                    x.solver.add(a[1] != b[1])
                    diff = (i, 'entry counts differ')
                    break
                continue
            if len(a[1]) != len(b[1]):
                diff = (i, 'fd returned %d entries, mmap %d' % (len(a[1]), len(b[1])))
                break
            for ca, cb in zip(a[1], b[1]):
                eq = envmodel.chunks_equal(x, ca, cb)
                if eq is False or (eq is not True and x.sat(z3.Not(eq))):
                    if eq is not False:
                        x.solver.add(z3.Not(eq))
                    diff = (i, 'returned entries differ')
                    break
            if diff:
                break
        if diff is None and len(ta) != len(tb):
            diff = (min(len(ta), len(tb)), 'one back end stopped early (fd %d observations, mmap %d)' % (len(ta), len(tb)))

        def short(t):
            return [(k, v if isinstance(v, str) else ('%d entries' % len(v) if isinstance(v, list) else 'n')) for k, v in t]
        if diff:
            wit = minimise(x, list(vars_))
            return dict(job=job, verdict='cex', kind='backend-diff', op_index=diff[0], detail=diff[1], witness=wit, ops=ops_out,
                        fd=short(ta), mmap=short(tb))
        wit = x.model_values(dict(vars_)) if cfg.get('witness', True) else None
        return dict(job=job, verdict='ok', witness=wit, ops=ops_out, fd=short(ta))
    return x, driver
