"""Driver `reclaim` (C12, C13, C02-reclamation clause): the real trackers (BlockStateTracker, FileStateTracker,
flush_check, deletion channel) interpreted on histories that fully allocate a file; a symbolic suffix of
reads / peeks / polls follows. Oracle: a file is handed to the deletion channel only when every entry stored in
it has been consumed by its topic's consumer."""
import z3

from .. import engine, envmodel
from ..values import *  # noqa: F401,F403

MIB = 2 ** 20
# concrete prefix: fills file 0 of an instance and seals all of its blocks
#   A: 490 MiB (initial block A0 stays empty, A1 = 50 units)   B: 100 B (B0), then 480 MiB (does not fit: file 0 fully allocated, B1 in file 1)
#   A: 20 MiB (A1 sealed, A2 in file 1)
PREFIX = [('A', 490 * MIB), ('B', 100), ('B', 480 * MIB), ('A', 20 * MIB)]
SUFFIX_OPS = ['nA', 'PA', 'bA', 'nB', 'pA', 'oA', 'oB']
SMALL_PREFIX = [('A', 300), ('A', 400), ('A', 500)]
SMALL_OPS = ['nA', 'X', 'PA', 'oA']


def mk(docs, job, cfg):
    cfg = dict(cfg, **job.get('cfg', {}))
    x = engine.mk_exec(docs, cfg)
    L = job['len']
    fixed = job.get('suffix')            # concrete suffix (list of op names) for replays / differential runs
    two = job.get('instances', 1) == 2   # C13: a second instance (other namespace) plays the suffix

    def locate(w, topic):
        wr = x.deref(x.deref(x.deref(w).f['writers']).cell.v.d[topic])
        blk = x.deref(wr.f['current_block']).cell.v
        return x.deref(blk.f['file_path']).v

    def driver(x):
        engine.new_world(x, fd_backend=True)
        r = engine.open_walrus(x, 'StrictlyAtOnce', None, schedule='Milliseconds', root='/d/ns1')
        w1 = r.f[0]
        insts = {'1': w1}
        stored = {}        # (inst, topic) -> list of (uid, file)
        delivered = {}
        ops_out = []
        uid = 0
        chan = lambda: x.globals['DELETION_TX'].v.v.v if x.globals.get('DELETION_TX') is not None and x.globals['DELETION_TX'].v.v is not None else None

        def append(inst, topic, size):
            nonlocal uid
            res = engine.api(x, insts[inst], 'append_for_topic', [PStr(topic), engine.payload(uid, bv64(size))])
            ops_out.append(dict(op='append', inst=inst, topic=topic, entries=[dict(uid=uid, len=size)]))
            if res.variant != 'Ok':
                raise Unsupported('prefix append failed: %r' % (res,))
            stored.setdefault((inst, topic), []).append((uid, locate(insts[inst], topic)))
            delivered.setdefault((inst, topic), 0)
            uid += 1
        small = job.get('prefix') == 'small'
        for topic, size in (SMALL_PREFIX if small else PREFIX):
            append('1', topic, size)
        file0 = stored[('1', 'A')][0][1]
        if two:
            r2 = engine.open_walrus(x, 'StrictlyAtOnce', None, schedule='Milliseconds', root='/d/ns2')
            insts['2'] = r2.f[0]
            ops_out.append(dict(op='open', inst='2', key='ns2'))
            # instance 2 builds three sealed blocks of topic C whose ids collide with instance 1's ids 1..3
            for size in (100, 10 * MIB, 100, 10 * MIB, 100, 10 * MIB):
                append('2', 'C', size)
        alphabet = (SMALL_OPS if small else SUFFIX_OPS) if not two else ['nC', 'PC', 'bC']
        suffix = []
        budgets = []
        offsets = []
        for i in range(L):
            if fixed:
                op = fixed[i]
            else:
                op = alphabet[x.choose(len(alphabet), 'op%d' % i)]
            suffix.append(op)
            if op == 'X':
                # clean shutdown, fresh process, reopen (the reclaimer of the new process sees what recovery reports)
                ops_out.append(dict(op='restart_process'))
                ops_out.append(dict(op='open', inst='1', key='ns1'))
                engine.drop_value(x, insts['1'])
                envmodel.reset_process(x)
                r = engine.open_walrus(x, 'StrictlyAtOnce', None, schedule='Milliseconds', root='/d/ns1')
                if r.variant != 'Ok':
                    return dict(job=job, verdict='cex', kind='reopen-failed', detail='reopen failed', suffix=suffix, ops=ops_out)
                insts['1'] = r.f[0]
                kind, topic, k = 'X', None, 0
            else:
                kind, topic = op[0], op[1]
            inst = '2' if two else '1'
            w = insts[inst]
            if kind == 'o':
                b = BV(bv64(job['budgets'][len(budgets)]), 64) if (fixed and job.get('budgets')) else x.symbv('budget%d' % len(budgets))
                budgets.append(b)
                off = BV(bv64(job['offsets'][len(offsets)]), 64) if (fixed and job.get('offsets')) else x.symbv('offset%d' % len(offsets))
                offsets.append(off)
                res = engine.api(x, w, 'batch_read_for_topic', [PStr(topic), b, x.flip('offset_ck%d' % i) if not fixed else False, Some(off)])
                ops_out.append(dict(op='batch_read', inst=inst, topic=topic, checkpoint=False, budget='budget%d' % (len(budgets) - 1), start_offset='offset%d' % (len(offsets) - 1)))
                if res.variant == 'Panic':
                    return dict(job=job, verdict='cex', kind='panic', detail='offset read panicked', suffix=suffix, ops=ops_out)
                k = 0
            if kind in ('X', 'o'):
                pass
            elif kind in ('n', 'p'):
                res = engine.api(x, w, 'read_next', [PStr(topic), kind == 'n'])
                ops_out.append(dict(op='read_next', inst=inst, topic=topic, checkpoint=(kind == 'n')))
                if res.variant != 'Ok':
                    return dict(job=job, verdict='cex', kind='read-error', detail='read failed', suffix=suffix, ops=ops_out)
                o = x.deref(res.f[0])
                k = 1 if o.variant == 'Some' else 0
            else:
                if fixed and job.get('budgets'):
                    b = BV(bv64(job['budgets'][len(budgets)]), 64)
                else:
                    b = x.symbv('budget%d' % len(budgets))
                budgets.append(b)
                res = engine.api(x, w, 'batch_read_for_topic', [PStr(topic), b, kind == 'b', NONE])
                ops_out.append(dict(op='batch_read', inst=inst, topic=topic, checkpoint=(kind == 'b'), budget='budget%d' % (len(budgets) - 1)))
                if res.variant != 'Ok':
                    return dict(job=job, verdict='cex', kind='read-error', detail='read failed', suffix=suffix, ops=ops_out)
                k = len(x.deref(res.f[0]).items)
            if kind in ('n', 'b'):
                delivered[(inst, topic)] = delivered.get((inst, topic), 0) + k
            ch = chan()
            sent = [x.deref(p).v for p in ch.sent] if ch is not None else []
            for f in sent:
                pending = [(it, u) for it, lst in stored.items() for j, (u, ff) in enumerate(lst) if ff == f and j >= delivered[it]]
                if pending:
                    wit = x.model_values(dict([('budget%d' % j, b.t) for j, b in enumerate(budgets)] + [('offset%d' % j, o_.t) for j, o_ in enumerate(offsets)])) or {}
                    return dict(job=job, verdict='cex', kind='premature-delete', suffix=suffix, ops=ops_out, witness=wit, file=f,
                                detail='file %s handed to the deletion channel after %s although entries %s stored in it are unconsumed'
                                       % (f.split('/')[-1], suffix, [u for _, u in pending]))
        wit = x.model_values(dict([('budget%d' % j, b.t) for j, b in enumerate(budgets)] + [('offset%d' % j, o_.t) for j, o_ in enumerate(offsets)])) or {}
        snap = x.deref(x.call('FileStateTracker', 'get_state_snapshot', [PStr(file0)]))
        cnt = None
        if snap.variant == 'Some':
            cnt = [x.concretize(x.tobv(v).t) if not isinstance(v, bool) else v for v in snap.f[0]]
        return dict(job=job, verdict='ok', suffix=suffix, ops=ops_out, witness=wit, file0_counters=cnt)
    return x, driver
