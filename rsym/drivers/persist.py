"""C09 (policy part): Walrus::should_persist in isolation, all persist_every / counter values, inductive oracle:
from any state with reads_since_persist < max(p,1) one call either returns true and resets the counter or returns
false with counter+1 < max(p,1) -- hence at least one persist in every max(p,1) consecutive consuming reads."""
import z3

from .. import engine
from ..values import *  # noqa: F401,F403


def mk(docs, job, cfg):
    x = engine.mk_exec(docs, cfg)

    def driver(x):
        every = x.symbv('persist_every', 32)
        reads = x.symbv('reads', 32)
        strict = x.flip('strict')
        mode = EnumV('ReadConsistency', 'StrictlyAtOnce') if strict else EnumV('ReadConsistency', 'AtLeastOnce', {'persist_every': every})
        force = x.flip('force')
        walrus = Struct('Walrus', {'read_consistency': mode})
        info = Struct('ColReaderInfo', {'reads_since_persist': reads})
        e1 = z3.If(z3.UGE(every.t, 1), every.t, z3.BitVecVal(1, 32))
        x.solver.add(z3.ULT(reads.t, e1))
        r = x.call('Walrus', 'should_persist', [PtrCell(Cell(info)), force], walrus)
        r = x.branch(r) if not isinstance(r, bool) else r
        post = x.tobv(info.f['reads_since_persist'], 32)
        if strict:
            bad = (not r)
        elif r:
            bad = post.t != 0
        else:
            bad = z3.Not(z3.And(post.t == reads.t + 1, z3.ULT(post.t, e1)))
        if bad is True or (bad is not False and x.sat(bad)):
            if bad is not True:
                x.solver.add(bad)
            m = x.model_values({'persist_every': every.t, 'reads_since_persist': reads.t})
            return dict(job=job, verdict='cex', kind='policy', detail='should_persist breaks the persist-every invariant', witness=m, strict=strict, force=force, returned=r)
        return dict(job=job, verdict='ok', strict=strict, force=force, returned=r)
    return x, driver
