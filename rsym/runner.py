"""Common machinery of every check: AST regeneration, exploration pool, evidence, findings, replay gate."""
import hashlib
import json
import multiprocessing as mp
import os
import subprocess
import sys
import time
import traceback

VERIF = os.path.dirname(os.path.dirname(os.path.abspath(__file__)))
REPO = os.environ.get('VERIF_REPO', '/repo')
BUILD = os.path.join(VERIF, 'build')
RS2JSON = os.path.join(BUILD, 'rs2json', 'release', 'rs2json')

EXIT_OK, EXIT_VIOLATION, EXIT_INCONCLUSIVE = 0, 1, 2


def sh(cmd, **kw):
    return subprocess.run(cmd, shell=isinstance(cmd, str), capture_output=True, text=True, **kw)


def ensure_rs2json():
    if not os.path.exists(RS2JSON):
        env = dict(os.environ, CARGO_NET_OFFLINE='true', CARGO_TARGET_DIR=os.path.join(BUILD, 'rs2json'))
        r = sh('cargo build --release --offline', cwd=os.path.join(VERIF, 'tools', 'rs2json'), env=env)
        if r.returncode != 0:
            print(r.stderr[-2000:])
            raise SystemExit(EXIT_INCONCLUSIVE)


def parse_sources(rel_paths):
    """AST of the current working tree files (regenerated on every run)."""
    ensure_rs2json()
    paths = [os.path.join(REPO, p) for p in rel_paths]
    for p in paths:
        if not os.path.exists(p):
            print('INCONCLUSIVE: anchored source file missing: %s' % p)
            raise SystemExit(EXIT_INCONCLUSIVE)
    r = sh([RS2JSON] + paths)
    if r.returncode != 0:
        print('INCONCLUSIVE: rs2json failed: %s' % r.stderr[-1500:])
        raise SystemExit(EXIT_INCONCLUSIVE)
    docs = []
    for line, p in zip(r.stdout.splitlines(), paths):
        d = json.loads(line)
        d['sha256'] = hashlib.sha256(open(p, 'rb').read()).hexdigest()
        docs.append(d)
    return docs


def solver_versions():
    import z3
    out = {'z3': z3.get_version_string()}
    r = sh('cvc5 --version')
    if r.returncode == 0:
        out['cvc5'] = r.stdout.splitlines()[0].strip()
    return out


# ------------------------------------------------------------------------------- pool
_WORKER = {}


def _worker_init(mkexec_mod, mkexec_name, docs, cfg):
    import importlib
    from . import arena
    arena.install()
    mod = importlib.import_module(mkexec_mod)
    _WORKER['mk'] = getattr(mod, mkexec_name)
    _WORKER['docs'] = docs
    _WORKER['cfg'] = cfg


def _worker_run(task):
    """task = (job, prefix_dec, prefix_qlog, budget_paths, deadline)"""
    from .core import Prefix
    from .values import Unsupported
    job, dec, qlog, max_paths, deadline = task
    _tt = time.time()
    try:
        x, driver = _WORKER['mk'](_WORKER['docs'], job, _WORKER['cfg'])
        # a task is a time slice (<= 8 s) so that no worker is tied up while earlier jobs still have work
        results = x.explore(driver, max_paths=max_paths, deadline=min(deadline, time.time() + 8), start=[Prefix(dec, qlog)])
        left = [(p.dec, p.qlog) for p in x.leftover]
        enc = {'%s:%s:%s' % k: v for k, v in x.encoded.items()}
        x.stats['task_s'] = time.time() - _tt
        x.stats['tasks'] = 1
        x.stats['prefix_len'] = len(dec)
        return dict(job=job, results=results, stats=x.stats, leftover=left, encoded=enc,
                    incomplete=x.incomplete_reasons, error=None)
    except Unsupported as u:
        return dict(job=job, results=[], stats={}, leftover=[], encoded={}, incomplete={},
                    error='unsupported construct: %s (call stack %s)' % (u, getattr(u, 'stk', None)))
    except Exception:
        return dict(job=job, results=[], stats={}, leftover=[], encoded={}, incomplete={},
                    error='internal error: ' + traceback.format_exc()[-1500:])


def explore_jobs(mk_mod, mk_name, docs, jobs, cfg, workers, wall_budget_s, chunk_paths=24):
    """Explore every job (skeleton) completely or until the wall budget ends.
    A job is split over workers by handing out unexplored prefixes. Jobs are served in the order given:
    a worker always takes a prefix of the earliest unfinished job, so cheap jobs listed first are completed
    before the budget is spent on expensive ones."""
    import heapq
    t0 = time.time()
    deadline = t0 + wall_budget_s
    agg = dict(results=[], stats={}, encoded={}, incomplete={}, errors=[], unfinished_jobs={}, jobs_done=0)
    order = {json.dumps(j, sort_keys=True): i for i, j in enumerate(jobs)}
    seq = [0]

    class Pending:
        def __init__(self):
            self.h = []

        def append(self, item):
            j, dec, ql = item
            seq[0] += 1
            heapq.heappush(self.h, (order.get(json.dumps(j, sort_keys=True), 10 ** 6), seq[0], item))

        def pop(self):
            return heapq.heappop(self.h)[2]

        def __bool__(self):
            return bool(self.h)

        def __iter__(self):
            return iter(it for _, _, it in self.h)
    pending = Pending()
    for j in jobs:
        pending.append((j, [], []))
    if workers <= 1:
        _worker_init(mk_mod, mk_name, docs, cfg)
        while pending:
            if time.time() > deadline:
                break
            j, dec, ql = pending.pop()
            _merge(agg, _worker_run((j, dec, ql, chunk_paths, deadline)), pending)
    else:
        ctx = mp.get_context('fork')
        with ctx.Pool(workers, initializer=_worker_init, initargs=(mk_mod, mk_name, docs, cfg)) as pool:
            inflight = []
            while pending or inflight:
                while pending and len(inflight) < workers + 2 and time.time() < deadline:
                    j, dec, ql = pending.pop()
                    inflight.append(pool.apply_async(_worker_run, ((j, dec, ql, chunk_paths, deadline),)))
                if not inflight:
                    break
                still = []
                progressed = False
                for h in inflight:
                    if h.ready():
                        _merge(agg, h.get(), pending)
                        progressed = True
                    else:
                        still.append(h)
                inflight = still
                if not progressed:
                    time.sleep(0.02)
                if time.time() > deadline and not inflight:
                    break
    for j, dec, ql in pending:
        k = json.dumps(j, sort_keys=True)
        agg['unfinished_jobs'][k] = agg['unfinished_jobs'].get(k, 0) + 1
    agg['wall_s'] = time.time() - t0
    if os.environ.get('VERIF_DEBUG'):
        print('[explore-cfg] %s %s workers=%s budget=%s' % (json.dumps(cfg, sort_keys=True, default=str)[:300], hashlib.sha256(json.dumps(jobs, sort_keys=True).encode()).hexdigest()[:8], workers, wall_budget_s), file=sys.stderr)
        for k, v in sorted(agg.get('per_job', {}).items(), key=lambda kv: -kv[1]['task_s']):
            print('[job] %s %s' % (v, k[:200]), file=sys.stderr)
        print('[explore] %d jobs, %d results, %.0fs, stats %s' % (len(jobs), len(agg['results']), agg['wall_s'], {k: (round(v, 1) if isinstance(v, float) else v) for k, v in agg['stats'].items()}), file=sys.stderr)
    return agg


def _merge(agg, r, pending):
    if r['error']:
        agg['errors'].append((r['job'], r['error']))
        return
    agg['results'].extend(r['results'])
    pj = agg.setdefault('per_job', {}).setdefault(json.dumps(r['job'], sort_keys=True), dict(paths=0, task_s=0.0, cex=0))
    pj['paths'] += len(r['results'])
    pj['task_s'] = round(pj['task_s'] + r['stats'].get('task_s', 0), 1)
    pj['cex'] += sum(1 for q in r['results'] if q.get('verdict') == 'cex')
    for k, v in r['stats'].items():
        agg['stats'][k] = agg['stats'].get(k, 0) + v
    for k, v in r['encoded'].items():
        agg['encoded'][k] = agg['encoded'].get(k, 0) + v
    for k, v in r['incomplete'].items():
        agg['incomplete'][k] = agg['incomplete'].get(k, 0) + v
    for dec, ql in r['leftover']:
        pending.append((r['job'], dec, ql))


# ------------------------------------------------------------------------------- findings
def load_findings(prop):
    path = os.path.join(VERIF, 'known_findings.jsonl')
    out = []
    if os.path.exists(path):
        for line in open(path):
            line = line.strip()
            if not line or line.startswith('#'):
                continue
            f = json.loads(line)
            if f.get('property') == prop:
                out.append(f)
    return out


# ------------------------------------------------------------------------------- evidence
def functions_encoded(encoded):
    from .core import src_hash
    out = []
    for k, n in sorted(encoded.items()):
        file, line, name = k.split(':', 2)
        if file == 'None':
            continue
        ln = int(line) if line.isdigit() else 0
        out.append({'fn': name, 'file': os.path.relpath(file, REPO) if file.startswith('/') else file, 'line': ln,
                    'calls_interpreted': n, 'src_hash': src_hash(file, ln)})
    return out


def write_evidence(prop, tier, seed, coverage, assumptions, wall_s, violations, level='model_checking'):
    os.makedirs(os.path.join(VERIF, 'evidence'), exist_ok=True)
    ev = dict(property_id=prop, tier=tier, seed=seed, level=level, coverage=coverage,
              assumptions=assumptions, wall_s=round(wall_s, 2), violations=violations)
    path = os.path.join(VERIF, 'evidence', prop + '.json')
    with open(path + '.tmp', 'w') as f:
        json.dump(ev, f, indent=1, default=str)
    os.replace(path + '.tmp', path)
    return path


def clear_replays(prop):
    import shutil
    shutil.rmtree(os.path.join(VERIF, 'replays', prop), ignore_errors=True)


def write_replay(prop, name, script):
    d = os.path.join(VERIF, 'replays', prop)
    os.makedirs(d, exist_ok=True)
    path = os.path.join(d, name + '.json')
    with open(path, 'w') as f:
        json.dump(script, f, indent=1, default=str)
    return path


def tier_and_seed(argv):
    tier = os.environ.get('VERIF_TIER', 'quick')
    if '--tier' in argv:
        tier = argv[argv.index('--tier') + 1]
    seed = int(os.environ.get('VERIF_SEED', '0') or 0)
    return tier, seed


def ncpu():
    try:
        return len(os.sched_getaffinity(0))
    except Exception:
        return os.cpu_count() or 4


# ------------------------------------------------------------------------------- report
class Report:
    """Accumulates what one check run covered and decides the exit status."""

    def __init__(self, prop, tier, seed):
        self.prop, self.tier, self.seed = prop, tier, seed
        self.t0 = time.time()
        self.states = 0
        self.transitions = 0
        self.queries = 0
        self.solver_s = 0.0
        self.paths_incomplete = 0
        self.paths_unknown = 0
        self.paths_imprecise = 0
        self.replays_run = 0
        self.replays_agreed = 0
        self.samples = []
        self.encoded = {}
        self.bounds = {}
        self.assumptions = []
        self.violations = []       # (replay path, text)
        self.known = []            # texts
        self.inconclusive = []     # reasons -> exit 2
        self.notes = []
        self.incomplete_reasons = {}
        self.extra = {}
        self.unfinished = {}

    def absorb(self, agg):
        st = agg['stats']
        self.transitions += st.get('transitions', 0)
        self.queries += st.get('queries', 0)
        self.solver_s += st.get('solver_s', 0.0)
        self.paths_incomplete += st.get('incomplete', 0)
        self.paths_unknown += st.get('unknown', 0)
        for k, v in agg['encoded'].items():
            self.encoded[k] = self.encoded.get(k, 0) + v
        for k, v in agg['incomplete'].items():
            self.incomplete_reasons[k] = self.incomplete_reasons.get(k, 0) + v
        for k, v in agg.get('unfinished_jobs', {}).items():
            self.unfinished[k] = self.unfinished.get(k, 0) + v
        pj = self.extra.setdefault('per_job', {})
        for k, v in agg.get('per_job', {}).items():
            pj[k] = dict(v, unexplored_prefixes=agg.get('unfinished_jobs', {}).get(k, 0))
        for job, err in agg['errors']:
            self.inconclusive.append('%s in job %s' % (err, json.dumps(job)))

    def violation(self, replay_path, text):
        self.violations.append((replay_path, text))

    def finish(self):
        wall = time.time() - self.t0
        cov = dict(states=self.states, transitions=max(self.transitions, 0),
                   traces_validated_against_impl=self.replays_agreed, samples=self.samples[:12],
                   functions_encoded=functions_encoded(self.encoded), bounds=self.bounds,
                   queries_discharged=self.queries, solver_time_s=round(self.solver_s, 2),
                   paths_incomplete=self.paths_incomplete, paths_unknown=self.paths_unknown,
                   paths_imprecise=self.paths_imprecise, incomplete_reasons=self.incomplete_reasons,
                   unexplored_prefixes_at_budget_end=self.unfinished,
                   replays_run=self.replays_run, replays_reproduced=self.replays_agreed,
                   solver_versions=solver_versions(), known_findings_reported=self.known,
                   notes=self.notes, exhaustive=False)
        cov.update(self.extra)
        code = EXIT_OK
        if self.inconclusive:
            code = EXIT_INCONCLUSIVE
        if self.violations:
            code = EXIT_VIOLATION
        if self.states < 1 and code == EXIT_OK:
            self.inconclusive.append('no path class was explored')
            code = EXIT_INCONCLUSIVE
        cov['inconclusive_reasons'] = self.inconclusive
        cov['states'] = max(self.states, 1) if code != EXIT_INCONCLUSIVE else self.states
        cov['transitions'] = max(cov['transitions'], 1) if self.states else cov['transitions']
        if not cov['samples']:
            cov['samples'] = [{'note': 'no sample recorded'}]
        write_evidence(self.prop, self.tier, self.seed, cov, self.assumptions, wall, len(self.violations))
        for k in self.known:
            print('KNOWN-FINDING: property=%s %s' % (self.prop, k))
        for r in self.inconclusive:
            print('INCONCLUSIVE: %s' % r)
        for path, text in self.violations:
            print('VIOLATION property=%s replay=%s' % (self.prop, path))
            print('  ' + text)
        print('%s %s: states=%d transitions=%d queries=%d solver=%.1fs replays=%d/%d incomplete=%d unknown=%d wall=%.1fs -> exit %d'
              % (self.prop, self.tier, self.states, self.transitions, self.queries, self.solver_s, self.replays_agreed,
                 self.replays_run, self.paths_incomplete, self.paths_unknown, wall, code))
        return code
