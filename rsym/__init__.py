"""rsym: source-level symbolic execution of nubskr/walrus (syn AST -> JSON -> this interpreter + z3)."""
