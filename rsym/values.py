"""Value domain of the interpreter."""
import z3


class BV:
    """machine integer: z3 bit-vector term + width; signed=True for i32/i64."""
    __slots__ = ('t', 'bits', 'signed', 'is_max')

    def __init__(s, t, bits, signed=False):
        s.t, s.bits, s.signed = t, bits, signed
        s.is_max = False

    def __repr__(s):
        return 'BV%d(%s)' % (s.bits, z3.simplify(s.t))


class IntU:
    """unsigned integer kept in Int sort (string drivers only)."""
    __slots__ = ('t', 'bits')

    def __init__(s, t, bits=64):
        s.t, s.bits = t, bits


class CharV:
    """a char: Int-sorted code point term (or python int)."""
    __slots__ = ('t',)

    def __init__(s, t):
        s.t = t if not isinstance(t, int) else z3.IntVal(t)


class VStr:
    """string as path-concrete-length vector of Int code points."""
    __slots__ = ('c',)

    def __init__(s, chars):
        s.c = list(chars)

    def __repr__(s):
        return 'VStr(%d)' % len(s.c)


class PStr:
    """concrete string (topic names, file names, messages)."""
    __slots__ = ('v',)

    def __init__(s, v):
        s.v = v

    def __repr__(s):
        return 'PStr(%r)' % s.v


class Struct:
    __slots__ = ('name', 'f')

    def __init__(s, name, f):
        s.name, s.f = name, f

    def __repr__(s):
        return '%s%r' % (s.name, s.f)


class EnumV:
    __slots__ = ('enum', 'variant', 'f')

    def __init__(s, enum, variant, f=None):
        s.enum, s.variant, s.f = enum, variant, (f if f is not None else [])

    def __repr__(s):
        return '%s::%s%r' % (s.enum, s.variant, s.f)


class Cell:
    __slots__ = ('v', 'moved')

    def __init__(s, v):
        s.v = v
        s.moved = False


class CellRef:
    """reference into a python dict slot (map entry)."""
    __slots__ = ('d', 'k')

    def __init__(s, d, k):
        s.d, s.k = d, k


class PtrCell:
    """&mut to a cell (e.g. `&mut *guard`, `&mut local`)."""
    __slots__ = ('cell',)

    def __init__(s, cell):
        s.cell = cell


class VVec:
    """Vec<T>. An empty Vec whose element type is unknown becomes a byte buffer (`buf`) on first byte-slice use."""
    __slots__ = ('items', 'buf')

    def __init__(s, items=None):
        s.items = items if items is not None else []
        s.buf = None


class VMap:
    __slots__ = ('d',)

    def __init__(s):
        s.d = {}


class VSet:
    __slots__ = ('items',)

    def __init__(s):
        s.items = []


class Lock:
    """Mutex / RwLock."""

    def __init__(s, v):
        s.cell = Cell(v)
        s.poisoned = False
        s.owner = None       # concurrency driver
        s.readers = 0


class Guard:
    __slots__ = ('lock', 'mode', 'released')

    def __init__(s, lock, mode='write'):
        s.lock, s.mode, s.released = lock, mode, False


class Arc:
    __slots__ = ('v', 'strong')

    def __init__(s, v):
        s.v = v
        s.strong = 1


class Atomic:
    __slots__ = ('v', 'bits')

    def __init__(s, v, bits=None):
        s.v, s.bits = v, bits


class OnceLockV:
    __slots__ = ('v',)

    def __init__(s):
        s.v = None


class UnsafeCellV:
    def __init__(s, v):
        s.cell = Cell(v)


class Closure:
    __slots__ = ('params', 'body', 'env', 'tys')

    def __init__(s, params, body, env, tys=None):
        s.params, s.body, s.env, s.tys = params, body, env, tys

    def __deepcopy__(s, memo):
        import copy
        c = Closure(s.params, s.body, copy.deepcopy(s.env, memo), list(s.tys) if s.tys is not None else None)
        memo[id(s)] = c
        return c


class Unit:
    def __repr__(s):
        return '()'


UNIT = Unit()


class IterV:
    __slots__ = ('items',)

    def __init__(s, items):
        s.items = list(items)


class RangeV:
    __slots__ = ('a', 'b', 'closed')

    def __init__(s, a, b, closed):
        s.a, s.b, s.closed = a, b, closed


class EntryV:
    __slots__ = ('m', 'k')

    def __init__(s, m, k):
        s.m, s.k = m, k


class Chan:
    """mpsc channel: FIFO list shared by Sender/Receiver."""

    def __init__(s):
        s.q = []
        s.sent = []
        s.senders = 1


class ConstV:
    """opaque named constant (ErrorKind::Other, Ordering::Relaxed ...)."""
    __slots__ = ('name',)

    def __init__(s, name):
        s.name = name

    def last(s):
        return s.name.split('::')[-1]

    def __repr__(s):
        return 'Const(%s)' % s.name


class IntLit:
    """untyped integer literal (width decided by context)."""
    __slots__ = ('v', 'bits')

    def __init__(s, v, bits=0):
        s.v, s.bits = v, bits


# ---- buffers: list of chunks --------------------------------------------------------------
class Bytes:
    """concrete-length list of byte values (python int | BV8 | ('rkyv', M, i))."""
    __slots__ = ('b',)

    def __init__(s, b):
        s.b = list(b)


class Opaque:
    """slice [start, start+ln) of the payload with identity uid."""
    __slots__ = ('uid', 'start', 'ln')

    def __init__(s, uid, start, ln):
        s.uid, s.start, s.ln = uid, start, ln


class Zeros:
    __slots__ = ('ln',)

    def __init__(s, ln):
        s.ln = ln


class Unknown:
    __slots__ = ('ln',)

    def __init__(s, ln):
        s.ln = ln


class Buffer:
    __slots__ = ('chunks',)

    def __init__(s, chunks=None):
        s.chunks = chunks if chunks is not None else []


def bv64(v):
    return z3.BitVecVal(v, 64)


def clen(c):
    return bv64(len(c.b)) if isinstance(c, Bytes) else c.ln


def Some(v):
    return EnumV('Option', 'Some', [v])


NONE = EnumV('Option', 'None')


def Ok(v):
    return EnumV('Result', 'Ok', [v])


def Err(v):
    return EnumV('Result', 'Err', [v])


INT_TYPES = {'u8': 8, 'u16': 16, 'u32': 32, 'u64': 64, 'usize': 64, 'u128': 128,
             'i8': 8, 'i16': 16, 'i32': 32, 'i64': 64, 'isize': 64}
SIGNED_TYPES = {'i8', 'i16', 'i32', 'i64', 'isize'}


# ---- control flow exceptions ----------------------------------------------------------------
class Return(Exception):
    def __init__(s, v):
        s.v = v


class Break(Exception):
    def __init__(s, label, v=None):
        s.label, s.v = label, v


class Continue(Exception):
    def __init__(s, label):
        s.label = label


class PathEnd(Exception):
    """path infeasible"""


class Unsupported(Exception):
    """construct outside the interpreter's subset: the run is inconclusive (exit 2)"""


class Incomplete(Exception):
    """unwinding bound hit / imprecise model: path is recorded, never claimed"""


class Panic(Exception):
    """a Rust panic in the interpreted code"""
