import importlib
import sys

from . import runner

PROPS = {
    'C01': 'rsym.props.c01',
    'C02': 'rsym.props.c02',
    'C03': 'rsym.props.c03',
    'C04': 'rsym.props.c04',
    'C05': 'rsym.props.c05',
    'C06': 'rsym.props.c06',
    'C07': 'rsym.props.c07',
    'C08': 'rsym.props.c08',
    'C09': 'rsym.props.c09',
    'C10': 'rsym.props.c10',
    'C11': 'rsym.props.c11',
    'C12': 'rsym.props.c12',
    'C13': 'rsym.props.c13',
    'C14': 'rsym.props.c14',
    'C15': 'rsym.props.c15',
    'C16': 'rsym.props.c16',
    'C17': 'rsym.props.c17',
    'C18': 'rsym.props.c18',
    'C24': 'rsym.props.c24',
    'C25': 'rsym.props.c25',
}


def main():
    from . import arena
    arena.install()
    argv = sys.argv[1:]
    if not argv:
        print('usage: check <ID> [--tier quick|thorough] [--replay path]')
        return 2
    pid = argv[0]
    if pid not in PROPS:
        print('INCONCLUSIVE: no check registered for %s' % pid)
        return 2
    mod = importlib.import_module(PROPS[pid])
    tier, seed = runner.tier_and_seed(argv)
    if '--replay' in argv:
        fn = getattr(mod, 'replay_entry', None) or mod.replay
        return fn(argv[argv.index('--replay') + 1])
    return mod.main(tier, seed)


if __name__ == '__main__':
    sys.exit(main())
