"""Install a caching arena allocator (see tools/arenacache/arenacache.c) to avoid CPython 3.11 frame-stack chunk thrashing."""
import ctypes
import os
import sys

_installed = False


def install():
    global _installed
    if _installed or sys.version_info[:2] != (3, 11):
        return False
    so = os.path.join(os.path.dirname(os.path.dirname(os.path.abspath(__file__))), 'build', 'arenacache.so')
    if not os.path.exists(so):
        return False
    try:
        lib = ctypes.CDLL(so)

        class Alloc(ctypes.Structure):
            _fields_ = [('ctx', ctypes.c_void_p), ('alloc', ctypes.c_void_p), ('free', ctypes.c_void_p)]
        a = Alloc(None, ctypes.cast(lib.arenacache_alloc, ctypes.c_void_p), ctypes.cast(lib.arenacache_free, ctypes.c_void_p))
        ctypes.pythonapi.PyObject_SetArenaAllocator.argtypes = [ctypes.POINTER(Alloc)]
        ctypes.pythonapi.PyObject_SetArenaAllocator.restype = None
        ctypes.pythonapi.PyObject_SetArenaAllocator(ctypes.byref(a))
        _installed = True
        install._keep = (lib, a)
        return True
    except Exception:
        return False
