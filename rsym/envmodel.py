"""Environment models for the core engine: file system, file contents (extents), io_uring, clock, threads, rkyv.
Every model here is part of every claim made by a driver that uses it (listed in the evidence)."""
import z3

from .values import *  # noqa: F401,F403

FILE_LEN = 1000 * 1024 * 1024      # MAX_FILE_SIZE set by create_new_file (checked against the source constant by drivers)

ASSUMPTIONS = [
    'file contents = ordered list of written extents (header value | payload slice (uid,start,len) | zeros); newest covering write wins; a read that cuts an extent in a way the model cannot name yields unknown bytes and the path is counted imprecise',
    'rkyv::to_bytes(Metadata) = opaque token string of calibrated length; archived_root+deserialize on exactly those tokens returns the same Metadata; on zeros the length prefix is 0',
    'checksum64(payload) is injective on payload descriptors (no FNV collisions); equal descriptors give equal sums',
    'io_uring: submitted writes/reads complete successfully in submission order unless the driver injects a fault',
    'pwrite/pread/msync/fsync succeed unless the driver injects a fault; reads past EOF: FD backend short read (ignored by the code), mmap backend slice panic',
    'SystemTime::now is a driver-controlled concrete millisecond counter',
    'Mutex/RwLock/atomics are sequentially consistent; sequential drivers never block',
    'background fsync/deletion thread and clean-marker persister are model threads run only when a driver schedules them',
]


# ============================================================================ persistent state (survives process restarts)
class FileModel:
    """one WAL file: extents = list of (off term, chunk) in write order"""

    def __init__(s, name):
        s.name = name
        s.extents = []
        s.length = bv64(0)     # BV64 term (pwrite past EOF extends the file)
        s.deleted = False


class SmallFile:
    """index / marker file: content is a snapshot object (or None for empty)"""

    def __init__(s, name, content=None):
        s.name, s.content = name, content


class FS:
    def __init__(s):
        s.files = {}       # path -> FileModel | SmallFile
        s.dirs = set()
        s.created_order = []

    def listing(s, root):
        pre = root.rstrip('/') + '/'
        return [p for p in s.files if p.startswith(pre) and '/' not in p[len(pre):]]


# ============================================================================ handles
class FileV:
    def __init__(s, fm, path, o_sync=False, is_dir=False):
        s.fm, s.path, s.o_sync, s.is_dir = fm, path, o_sync, is_dir


class OpenOptsV:
    def __init__(s):
        s.flags = set()


class MmapMutV:
    def __init__(s, filev):
        s.filev = filev
        s.maplen = filev.fm.length      # the mapping keeps the length the file had when it was mapped


class PtrOff:
    def __init__(s, mm, off):
        s.mm, s.off = mm, off


class TimeV:
    def __init__(s, ms):
        s.ms = ms


class DirEnt:
    def __init__(s, path):
        s.path = path


class FileTypeV:
    pass


class MetaV:
    def __init__(s, ln):
        s.ln = ln


class SmallBytes:
    """serialised small object (rkyv of a HashMap)"""

    def __init__(s, val):
        s.val = val
        s.ln = bv64(64)       # nominal length so that it can sit in a Buffer as one chunk


class WeakV:
    def __init__(s, arc):
        s.arc = arc


class ThreadV:
    def __init__(s, closure, name):
        s.closure, s.name = closure, name


class CkVal:
    """checksum of a byte string = its descriptor (injective by assumption)"""

    def __init__(s, chunks):
        s.chunks = chunks


# ---- io_uring
class Ring:
    def __init__(s, cap=None):
        s.sq, s.cq = [], []
        s.cap = cap            # submission-queue capacity (entries rounded up to a power of two, as the kernel does)


class UringOp:
    def __init__(s, kind, fd, buf, ln):
        s.kind, s.fd, s.buf, s.ln, s.off, s.ud = kind, fd, buf, ln, None, None


class Cqe:
    def __init__(s, ud, res):
        s.ud, s.res = ud, res


class Event(Exception):
    """raised by an I/O model when the driver asked for a crash before this event"""


# ============================================================================ content model
def file_write(x, fm, off, buf, event=True):
    if event:
        io_event(x, 'write', fm.name)
    pos = x.tobv(off).t
    for c in x.deref(buf).chunks:
        ln = clen(c)
        if x.valid(ln == 0):
            continue
        fm.extents.append((z3.simplify(pos), c, len(x.io_log)))
        pos = pos + ln
    x.writes = getattr(x, 'writes', 0) + 1


def file_read(x, fm, off, dest_len, eof_mode):
    """returns list of chunks of total length dest_len read at off. eof_mode: 'short' (fd) | 'panic' (mmap)"""
    pos = x.tobv(off).t
    remaining = x.tobv(dest_len).t
    flen = fm.length if eof_mode == 'short' else eof_mode[1]
    eof_mode = eof_mode if eof_mode == 'short' else 'panic'
    over = z3.Or(z3.UGT(pos + remaining, flen), z3.ULT(pos + remaining, pos))
    tail_zero = None
    if not x.valid(z3.Not(over)):
        if x.branch(over):
            if eof_mode == 'panic':
                raise Panic('mmap slice out of range (read past end of file)')
            # short read: bytes past EOF keep the caller's buffer content (zero-initialised in every caller)
            inside = z3.simplify(z3.If(z3.UGE(pos, flen), bv64(0), flen - pos))
            tail_zero = z3.simplify(remaining - inside)
            remaining = inside
    # fast path: a read that starts at or beyond everything ever written to the file returns zeros
    pos_c = z3.simplify(pos)
    if z3.is_bv_value(pos_c) and tail_zero is None:
        pc = pos_c.as_long()
        zf = getattr(fm, 'zero_from', None)
        if zf is not None and zf[1] == len(fm.extents) and pc >= zf[0]:
            return [Zeros(remaining)]
        if fm.extents and (zf is None or zf[1] != len(fm.extents) or pc < zf[0]):
            hw = bv64(0)
            for eoff, c, _ in fm.extents:
                end = eoff + clen(c)
                hw = z3.If(z3.UGT(end, hw), end, hw)
            if x.valid(z3.ULE(hw, pos)):
                fm.zero_from = (pc if zf is None or zf[1] != len(fm.extents) else min(pc, zf[0]), len(fm.extents))
                return [Zeros(remaining)]
        elif not fm.extents:
            return [Zeros(remaining)]
    out = []
    guard = 0
    while True:
        guard += 1
        if guard > 400:
            raise Incomplete('unwinding bound: file_read pieces')
        if x.valid(remaining == 0):
            break
        found = None
        found_idx = None
        inside_older = False
        for idx in range(len(fm.extents) - 1, -1, -1):
            eoff, c, _ = fm.extents[idx]
            ln = clen(c)
            if x.valid(eoff == pos):
                if x.valid(ln != 0) or x.branch(ln != 0):
                    found, found_idx = c, idx
                    break
                continue
            covers = z3.And(z3.ULE(eoff, pos), z3.ULT(pos - eoff, ln))
            if x.sat(covers):
                if x.branch(covers):
                    if x.branch(eoff == pos):
                        found, found_idx = c, idx
                    else:
                        inside_older = True
                    break
        if found is None:
            if inside_older:
                x.path_flags.add('imprecise')
                out.append(Unknown(remaining))
                break
            # unwritten space up to the next extent start (if any extent starts inside the range)
            nxt = None
            for idx in range(len(fm.extents) - 1, -1, -1):
                eoff, c, _ = fm.extents[idx]
                cond = z3.And(z3.UGT(eoff, pos), z3.ULT(eoff - pos, remaining))
                if x.sat(cond) and x.branch(cond):
                    # nearest such start
                    if nxt is None or x.valid(z3.ULT(eoff, nxt)):
                        nxt = eoff
            if nxt is None:
                out.append(Zeros(remaining))
                break
            gap = z3.simplify(nxt - pos)
            out.append(Zeros(gap))
            remaining = z3.simplify(remaining - gap)
            pos = z3.simplify(pos + gap)
            continue
        ln = clen(found)
        take = ln
        # clip at a newer extent that starts strictly inside the found one
        for idx in range(found_idx + 1, len(fm.extents)):
            noff, nc, _ = fm.extents[idx]
            cond = z3.And(z3.UGT(noff, pos), z3.ULT(noff - pos, take))
            if x.sat(cond) and x.branch(cond):
                take = z3.simplify(noff - pos)
        if x.branch(z3.ULE(take, remaining)):
            piece = take
        else:
            piece = remaining
        out.append(chunk_prefix(x, found, piece))
        remaining = z3.simplify(remaining - piece)
        pos = z3.simplify(pos + piece)
    if tail_zero is not None:
        out.append(Zeros(tail_zero))
    return out


def chunk_prefix(x, c, n):
    if x.valid(clen(c) == n):
        return c
    if isinstance(c, Opaque):
        return Opaque(c.uid, c.start, n)
    if isinstance(c, Zeros):
        return Zeros(n)
    if isinstance(c, Bytes):
        k = x.concretize(n)
        if k is not None:
            return Bytes(c.b[:k])
    x.path_flags.add('imprecise')
    return Unknown(n)


def io_event(x, kind, what):
    """numbered I/O event; the crash driver may stop the process before it"""
    log = x.io_log
    hook = getattr(x, 'before_io', None)
    if hook:
        hook(kind, what, len(log))
    log.append((kind, what))


# ============================================================================ install
def install(x, rkyv_table=None):
    """register environment models on an Exec; driver must call reset_process(x)/reset_world(x) per path."""
    mm = x.method_models
    fn = x.fn_models
    x.rkyv_table = rkyv_table or {}

    # ---- rkyv
    def rkyv_len(n):
        if n in x.rkyv_table:
            return x.rkyv_table[n]
        return 32 if n <= 8 else 32 + ((n + 7) // 8) * 8

    def f_to_bytes(x, a, e):
        m = x.deref(a[0])
        if isinstance(m, Struct) and m.name == 'Metadata':
            ob = x.deref(m.f['owned_by'])
            n = rkyv_len(len(ob.v.encode()))
            return Ok(Buffer([Bytes([('rkyv', m, i) for i in range(n)])]))
        if isinstance(m, VMap):
            return Ok(SmallBytes(x.clone(m)))
        raise Unsupported('rkyv::to_bytes of %r' % type(m))

    def f_archived_root(x, a, e):
        targ = e['func']['path']['segs'][-1].get('args') or ''
        b = x.deref(a[0])
        if isinstance(b, SmallBytes):
            return b
        if 'Metadata' in targ:
            toks = [t for c in b.chunks if isinstance(c, Bytes) for t in c.b]
            if toks and len(b.chunks) == 1 and all(isinstance(t, tuple) and t[0] == 'rkyv' and t[1] is toks[0][1] and t[2] == i
                                                 for i, t in enumerate(toks)):
                m = toks[0][1]
                if len(toks) == rkyv_len(len(x.deref(m.f['owned_by']).v.encode())):
                    return m
            hook = getattr(x, 'corrupt_header', None)
            if hook:
                return hook(b, e)
            x.path_flags.add('imprecise')
            raise Incomplete('imprecise: archived_root on bytes that are not one complete header (line %s)' % e.get('line'))
        raise Unsupported('archived_root::%s' % targ)

    def m_small_deserialize(x, r, a, e):
        return Ok(x.clone(r.val))

    def f_check_archived_root(x, a, e):
        """validated decode: Ok(value) on a complete header / serialised map; on other bytes validation may fail, or
        succeed with arbitrary field values (a damaged header that still is a well-formed archive)"""
        targ = e['func']['path']['segs'][-1].get('args') or ''
        b = x.deref(a[0])
        if isinstance(b, SmallBytes):
            return Ok(b)
        if isinstance(b, Buffer) and len(b.chunks) == 1 and isinstance(b.chunks[0], SmallBytes):
            return Ok(b.chunks[0])
        if 'Metadata' in targ:
            toks = [t for c in b.chunks if isinstance(c, Bytes) for t in c.b]
            if toks and len(b.chunks) == 1 and all(isinstance(t, tuple) and t[0] == 'rkyv' and t[1] is toks[0][1] and t[2] == i
                                                 for i, t in enumerate(toks)):
                m = toks[0][1]
                if len(toks) == rkyv_len(len(x.deref(m.f['owned_by']).v.encode())):
                    return Ok(m)
            hook = getattr(x, 'corrupt_header', None)
            if hook:
                return hook(b, e)
            # garbage (payload bytes, torn header): validation rejects it, or it happens to be a well-formed archive
            if x.flip('garbage_header_validates'):
                x.path_flags.add('imprecise')
                raise Incomplete('imprecise: bytes that are not a written header validate as a header (line %s)' % e.get('line'))
            return Err(PStr('validation failed'))
        if 'HashMap' in targ:
            return Err(PStr('validation failed'))
        raise Unsupported('check_archived_root::%s' % targ)
    fn['rkyv::check_archived_root'] = f_check_archived_root
    fn['rkyv::to_bytes'] = f_to_bytes
    fn['rkyv::archived_root'] = f_archived_root
    fn['AlignedVec::with_capacity'] = lambda x, a, e: Buffer([])
    fn['rkyv::AlignedVec::with_capacity'] = lambda x, a, e: Buffer([])
    mm[('SmallBytes', 'deserialize')] = m_small_deserialize
    mm[('SmallBytes', 'is_empty')] = lambda x, r, a, e: False
    mm[('SmallBytes', 'len')] = lambda x, r, a, e: BV(bv64(64), 64)

    # ---- checksum (injective descriptor)
    def f_checksum(x, a, e):
        b = x.deref(a[0])
        if isinstance(b, (VStr, PStr)):
            return x.symbv('cksum_of_string')
        return CkVal(list(b.chunks))
    fn['checksum64'] = f_checksum

    # ---- clock
    def f_now(x, a, e):
        return TimeV(x.clock_now())
    fn['SystemTime::now'] = f_now
    mm[('TimeV', 'duration_since')] = lambda x, r, a, e: Ok(r)
    mm[('TimeV', 'as_millis')] = lambda x, r, a, e: BV(bv64(r.ms), 64)
    x.clock_now = lambda: clock_tick(x)

    # ---- fs
    def pathstr(v):
        v = x.deref(v)
        if isinstance(v, PStr):
            return v.v
        raise Unsupported('path value %r' % type(v))

    def f_create_dir_all(x, a, e):
        x.fs.dirs.add(pathstr(a[0]))
        return Ok(UNIT)

    def f_file_create(x, a, e):
        p = pathstr(a[0])
        if fault(x, 'create_file'):
            return Err(Struct('IoError', {'kind': ConstV('ErrorKind::Other'), 'msg': PStr('injected: create failed')}))
        io_event(x, 'create', p)
        fm = FileModel(p)
        x.fs.files[p] = fm
        x.fs.created_order.append(p)
        return Ok(FileV(fm, p))

    def f_file_open(x, a, e):
        p = pathstr(a[0])
        if p in x.fs.dirs:
            return Ok(FileV(None, p, is_dir=True))
        f = x.fs.files.get(p)
        if f is None:
            return Err(Struct('IoError', {'kind': ConstV('ErrorKind::NotFound'), 'msg': PStr('not found')}))
        return Ok(FileV(f, p))

    def m_set_len(x, r, a, e):
        io_event(x, 'set_len', r.path)
        r.fm.length = x.tobv(a[0]).t
        return Ok(UNIT)

    def m_sync_all(x, r, a, e):
        if fault(x, 'fsync'):
            return Err(Struct('IoError', {'kind': ConstV('ErrorKind::Other'), 'msg': PStr('injected: fsync failed')}))
        if not x.in_flush:
            io_event(x, 'fsync', r.path)
        return Ok(UNIT)

    def f_read_dir(x, a, e):
        root = pathstr(a[0])
        if root not in x.fs.dirs:
            return Err(Struct('IoError', {'kind': ConstV('ErrorKind::NotFound'), 'msg': PStr('no dir')}))
        names = x.fs.listing(root)
        order = getattr(x, 'readdir_order', None)
        names = order(names) if order else names
        return Ok(IterV([Ok(DirEnt(n)) for n in names]))

    def f_fs_read(x, a, e):
        p = pathstr(a[0])
        f = x.fs.files.get(p)
        if f is None:
            return Err(Struct('IoError', {'kind': ConstV('ErrorKind::NotFound'), 'msg': PStr('not found')}))
        if isinstance(f, SmallFile):
            if f.content is None:
                return Ok(Buffer([]))
            return Ok(f.content)
        raise Unsupported('fs::read of a WAL file')

    def f_fs_write(x, a, e):
        p = pathstr(a[0])
        io_event(x, 'write_small', p)
        x.fs.files[p] = SmallFile(p, x.deref(a[1]))
        return Ok(UNIT)

    def f_fs_rename(x, a, e):
        src, dst = pathstr(a[0]), pathstr(a[1])
        io_event(x, 'rename', dst)
        f = x.fs.files.pop(src)
        f.name = dst
        x.fs.files[dst] = f
        return Ok(UNIT)

    def f_remove_file(x, a, e):
        p = pathstr(a[0])
        io_event(x, 'unlink', p)
        f = x.fs.files.pop(p, None)
        if f is None:
            return Err(Struct('IoError', {'kind': ConstV('ErrorKind::NotFound'), 'msg': PStr('not found')}))
        if isinstance(f, FileModel):
            f.deleted = True
        x.fs_deleted.append(p)
        return Ok(UNIT)

    fn['fs::create_dir_all'] = f_create_dir_all
    fn['std::fs::File::create'] = f_file_create
    fn['fs::File::create'] = f_file_create
    fn['File::create'] = f_file_create
    fn['std::fs::File::open'] = f_file_open
    fn['fs::File::open'] = f_file_open
    fn['File::open'] = f_file_open
    fn['fs::read_dir'] = f_read_dir
    fn['fs::read'] = f_fs_read
    fn['fs::write'] = f_fs_write
    fn['fs::rename'] = f_fs_rename
    fn['fs::remove_file'] = f_remove_file
    mm[('FileV', 'set_len')] = m_set_len
    mm[('FileV', 'sync_all')] = m_sync_all
    mm[('FileV', 'metadata')] = lambda x, r, a, e: Ok(MetaV(r.fm.length))
    mm[('MetaV', 'len')] = lambda x, r, a, e: BV(r.ln, 64)
    mm[('DirEnt', 'path')] = lambda x, r, a, e: PStr(r.path)
    mm[('DirEnt', 'file_type')] = lambda x, r, a, e: Ok(FileTypeV())
    mm[('FileTypeV', 'is_dir')] = lambda x, r, a, e: False
    mm[('PStr', 'join')] = lambda x, r, a, e: PStr(r.v.rstrip('/') + '/' + x.deref(a[0]).v)
    def m_path_parent(x, r, a, e):
        # std::path::Path::parent: None for the root and for the empty path, Some("") for a bare file name
        v = r.v.rstrip('/') if r.v != '/' else r.v
        if v in ('', '/'):
            return NONE
        return Some(PStr(v.rsplit('/', 1)[0] if '/' in v else ''))
    mm[('PStr', 'parent')] = m_path_parent
    mm[('PStr', 'file_name')] = lambda x, r, a, e: Some(PStr(r.v.rstrip('/').rsplit('/', 1)[-1])) if r.v.rstrip('/') else NONE
    mm[('PStr', 'exists')] = lambda x, r, a, e: (r.v in x.fs.files or r.v in x.fs.dirs)

    # ---- OpenOptions / file handles / mmap
    fn['OpenOptions::new'] = lambda x, a, e: OpenOptsV()

    def opt_flag(name):
        def f(x, r, a, e):
            r.flags.add((name, repr(a[0]) if a else ''))
            if name == 'custom_flags':
                r.flags.add('o_sync')
            return r
        return f
    for nm in ('read', 'write', 'create', 'custom_flags', 'truncate', 'append'):
        mm[('OpenOptsV', nm)] = opt_flag(nm)

    def m_opts_open(x, r, a, e):
        p = pathstr(a[0])
        f = x.fs.files.get(p)
        if f is None or not isinstance(f, FileModel):
            return Err(Struct('IoError', {'kind': ConstV('ErrorKind::NotFound'), 'msg': PStr('not found')}))
        return Ok(FileV(f, p, o_sync='o_sync' in r.flags))
    mm[('OpenOptsV', 'open')] = m_opts_open
    x.p.consts.setdefault('O_SYNC', {'k': 'const', 'name': 'O_SYNC', 'ty': 'i32', 'e': {'k': 'lit', 't': 'int', 'v': '1052672', 'suffix': ''}})

    def m_write_at(x, r, a, e):
        if fault(x, 'pwrite'):
            return Err(Struct('IoError', {'kind': ConstV('ErrorKind::Other'), 'msg': PStr('injected: pwrite failed')}))
        file_write(x, r.fm, a[1], a[0])
        end = z3.simplify(x.tobv(a[1]).t + x.buf_len(x.deref(a[0])).t)
        r.fm.length = z3.simplify(z3.If(z3.UGT(end, r.fm.length), end, r.fm.length))
        return Ok(x.buf_len(x.deref(a[0])))

    def m_read_at(x, r, a, e):
        dest = x.deref(a[0])
        dest.chunks = file_read(x, r.fm, a[1], x.buf_len(dest), 'short')
        return Ok(x.buf_len(dest))
    mm[('FileV', 'write_at')] = m_write_at
    mm[('FileV', 'read_at')] = m_read_at
    mm[('FileV', 'as_raw_fd')] = lambda x, r, a, e: r

    def f_map_mut(x, a, e):
        # memmap2 maps a zero-length file as an empty mapping (no error); slicing it panics
        return Ok(MmapMutV(x.deref(a[0])))
    fn['MmapMut::map_mut'] = f_map_mut
    mm[('MmapMutV', 'len')] = lambda x, r, a, e: BV(r.maplen, 64)
    mm[('MmapMutV', 'as_ptr')] = lambda x, r, a, e: PtrOff(r, bv64(0))
    mm[('PtrOff', 'add')] = lambda x, r, a, e: PtrOff(r.mm, z3.simplify(r.off + x.tobv(a[0]).t))

    def m_mmap_flush(x, r, a, e):
        if fault(x, 'fsync'):
            return Err(Struct('IoError', {'kind': ConstV('ErrorKind::Other'), 'msg': PStr('injected: msync failed')}))
        if not x.in_flush:
            io_event(x, 'msync', r.filev.path)
        return Ok(UNIT)
    mm[('MmapMutV', 'flush')] = m_mmap_flush

    def f_copy_nonoverlapping(x, a, e):
        src, dst, n = x.deref(a[0]), a[1], a[2]
        if not isinstance(dst, PtrOff):
            raise Unsupported('copy_nonoverlapping destination')
        fm = dst.mm.filev.fm
        end = dst.off + x.tobv(n).t
        bad = z3.Or(z3.UGT(end, dst.mm.maplen), z3.ULT(end, dst.off))
        if not x.valid(z3.Not(bad)) and x.branch(bad):
            raise Panic('SIGSEGV/SIGBUS: mmap write past end of mapping')
        file_write(x, fm, BV(dst.off, 64), src)
        return UNIT
    fn['std::ptr::copy_nonoverlapping'] = f_copy_nonoverlapping
    fn['ptr::copy_nonoverlapping'] = f_copy_nonoverlapping

    # `&mmap[a..b]` on the mapping
    old_index = x.e_index

    def e_index(e, env):
        b = x.deref(x.eval(e['base'], env))
        if isinstance(b, MmapMutV):
            r = x.eval(e['index'], env)
            a0 = x.tobv(r.a).t
            z0 = x.tobv(r.b).t
            fm = b.filev.fm
            bad = z3.Or(z3.UGT(z0, b.maplen), z3.UGT(a0, z0))
            if not x.valid(z3.Not(bad)) and x.branch(bad):
                raise Panic('mmap slice index out of range')
            return Buffer(file_read(x, fm, BV(a0, 64), BV(z3.simplify(z0 - a0), 64), ('panic', b.maplen)))
        return old_index(e, env)
    x.e_index = e_index

    # pointer casts are identity
    old_cast = x.e_cast

    def e_cast(e, env):
        if e['ty'].startswith('*'):
            return x.eval(e['e'], env)
        return old_cast(e, env)
    x.e_cast = e_cast

    # ---- io_uring
    def f_ring_new(x, a, e):
        if fault(x, 'uring_init'):
            return Err(PStr('injected: io_uring unavailable'))
        n = x.concretize(x.tobv(a[0]).t) if a else None
        cap = None
        if n is not None:
            cap = 1
            while cap < max(n, 1):
                cap *= 2
        return Ok(Ring(cap))
    fn['io_uring::IoUring::new'] = f_ring_new
    fn['io_uring::opcode::Write::new'] = lambda x, a, e: UringOp('write', a[0], x.deref(a[1]), a[2])
    fn['io_uring::opcode::Read::new'] = lambda x, a, e: UringOp('read', a[0], x.deref(a[1]), a[2])
    fn['io_uring::opcode::Fsync::new'] = lambda x, a, e: UringOp('fsync', a[0], None, None)
    fn['io_uring::types::Fd'] = lambda x, a, e: a[0]

    def op_set(field):
        def f(x, r, a, e):
            if a:
                setattr(r, field, a[0])
            return r
        return f
    mm[('UringOp', 'offset')] = op_set('off')
    mm[('UringOp', 'build')] = op_set('_')
    mm[('UringOp', 'user_data')] = op_set('ud')
    mm[('Ring', 'submission')] = lambda x, r, a, e: r
    mm[('Ring', 'completion')] = lambda x, r, a, e: r

    def ring_push(x, r, a, e):
        if r.cap is not None and len(r.sq) >= r.cap:
            return Err(PStr('submission queue is full'))
        r.sq.append(x.deref(a[0]))
        return Ok(UNIT)
    mm[('Ring', 'push')] = ring_push
    mm[('Ring', 'is_full')] = lambda x, r, a, e: r.cap is not None and len(r.sq) >= r.cap
    mm[('Ring', 'is_empty')] = lambda x, r, a, e: not r.sq
    mm[('Ring', 'len')] = lambda x, r, a, e: BV(bv64(len(r.sq)), 64)
    mm[('Ring', 'capacity')] = lambda x, r, a, e: BV(bv64(r.cap if r.cap is not None else 4096), 64)
    mm[('Ring', 'sync')] = lambda x, r, a, e: UNIT

    def ring_submit(x, r, a, e):
        if fault(x, 'uring_submit'):
            return Err(Struct('IoError', {'kind': ConstV('ErrorKind::Other'), 'msg': PStr('injected: submit failed')}))
        n = len(r.sq)
        if any(op.kind == 'write' for op in r.sq):
            io_event(x, 'uring_submit', str(n))
        for i, op in enumerate(r.sq):
            f = fault(x, 'uring_cqe', i)
            if op.kind == 'write':
                want = x.tobv(op.ln)
                if f == 'neg':
                    res = BV(z3.BitVecVal(-5 & 0xffffffff, 32), 32, True)
                elif f == 'neg_written':
                    # the write reached the file but the completion reports failure (what the fault hook replays)
                    file_write(x, op.fd.fm, op.off, op.buf, event=False)
                    end = z3.simplify(x.tobv(op.off).t + x.buf_len(op.buf).t)
                    op.fd.fm.length = z3.simplify(z3.If(z3.UGT(end, op.fd.fm.length), end, op.fd.fm.length))
                    res = BV(z3.BitVecVal(-5 & 0xffffffff, 32), 32, True)
                elif f == 'short':
                    res = BV(z3.BitVecVal(1, 32), 32, True)
                    file_write(x, op.fd.fm, op.off, Buffer([chunk_prefix(x, op.buf.chunks[0], bv64(1))]) if op.buf.chunks else Buffer([]), event=False)
                else:
                    file_write(x, op.fd.fm, op.off, op.buf, event=False)
                    end = z3.simplify(x.tobv(op.off).t + x.buf_len(op.buf).t)
                    op.fd.fm.length = z3.simplify(z3.If(z3.UGT(end, op.fd.fm.length), end, op.fd.fm.length))
                    res = BV(z3.Extract(31, 0, want.t) if want.bits > 32 else want.t, 32, True)
            elif op.kind == 'read':
                want = x.tobv(op.ln)
                if f == 'neg':
                    res = BV(z3.BitVecVal(-5 & 0xffffffff, 32), 32, True)
                else:
                    op.buf.chunks = file_read(x, op.fd.fm, op.off, BV(z3.ZeroExt(32, want.t) if want.bits == 32 else want.t, 64), 'short')
                    res = BV(want.t if want.bits == 32 else z3.Extract(31, 0, want.t), 32, True)
            else:
                io_event(x, 'fsync', op.fd.path)
                res = BV(z3.BitVecVal(0, 32), 32, True)
            r.cq.append(Cqe(op.ud, res))
        r.sq = []
        return Ok(BV(bv64(n), 64))
    mm[('Ring', 'submit_and_wait')] = ring_submit
    mm[('Ring', 'submit')] = ring_submit
    mm[('Ring', 'next')] = lambda x, r, a, e: Some(r.cq.pop(0)) if r.cq else NONE
    mm[('Cqe', 'user_data')] = lambda x, r, a, e: x.tobv(r.ud)
    mm[('Cqe', 'result')] = lambda x, r, a, e: r.res

    # ---- channels / threads / weak
    def f_channel(x, a, e):
        c = Chan()
        return (c, c)
    fn['mpsc::channel'] = f_channel

    def f_spawn(x, a, e):
        x.threads.append(ThreadV(a[0], 'thread%d@%s' % (len(x.threads), e.get('line'))))
        return UNIT
    fn['thread::spawn'] = f_spawn
    fn['std::thread::spawn'] = f_spawn
    fn['Arc::downgrade'] = lambda x, a, e: WeakV(a[0])
    mm[('WeakV', 'upgrade')] = lambda x, r, a, e: Some(r.arc) if r.arc.strong > 0 else NONE

    # ---- env vars
    def f_env_var(x, a, e):
        name = x.deref(a[0]).v
        if name in x.env_vars:
            return Ok(PStr(x.env_vars[name]))
        return Err(PStr('NotPresent'))
    fn['std::env::var'] = f_env_var
    fn['env::var'] = f_env_var
    fn['std::env::var_os'] = lambda x, a, e: m_opt(f_env_var(x, a, e))

    # ---- StorageImpl::flush is one event ('flush'), whatever it does inside
    x.in_flush = 0
    old_call_fn = x.call_fn

    def call_fn(item, args, self_val=None):
        if item['sig']['name'] == 'flush' and item.get('_ty') == 'StorageImpl':
            if fault(x, 'flush'):
                return Err(Struct('IoError', {'kind': ConstV('ErrorKind::Other'), 'msg': PStr('injected: flush failed')}))
            io_event(x, 'flush', '')
            x.in_flush += 1
            try:
                return old_call_fn(item, args, self_val)
            finally:
                x.in_flush -= 1
        return old_call_fn(item, args, self_val)
    x.call_fn = call_fn

    # ---- CkVal comparison
    old_binop = x.binop

    def binop(op, a, b):
        a0, b0 = x.deref(a), x.deref(b)
        if isinstance(a0, CkVal) or isinstance(b0, CkVal):
            eq = ck_equal(x, a0, b0)
            return eq if op == '==' else x.lnot(eq)
        return old_binop(op, a, b)
    x.binop = binop


def m_opt(res):
    return Some(res.f[0]) if res.variant == 'Ok' else NONE


def clock_tick(x):
    x.clock += 1
    return x.clock


def fault(x, kind, idx=None):
    """does the driver inject a fault at this call? faults are driver decisions (forks)"""
    f = getattr(x, 'fault_hook', None)
    if not f:
        return None
    return f(kind, idx)


def normalise(x, chunks):
    """drop zero-length chunks, merge contiguous payload slices (forks where a length may be zero)"""
    out = []
    for c in chunks:
        ln = clen(c)
        if x.valid(ln == 0):
            continue
        if not x.valid(ln != 0):
            if x.branch(ln == 0):
                continue
        if out and isinstance(c, Opaque) and isinstance(out[-1], Opaque) and c.uid == out[-1].uid and \
                x.valid(out[-1].start + out[-1].ln == c.start):
            out[-1] = Opaque(c.uid, out[-1].start, z3.simplify(out[-1].ln + c.ln))
            continue
        if out and isinstance(c, Zeros) and isinstance(out[-1], Zeros):
            out[-1] = Zeros(z3.simplify(out[-1].ln + c.ln))
            continue
        if out and isinstance(c, Bytes) and isinstance(out[-1], Bytes):
            out[-1] = Bytes(out[-1].b + c.b)
            continue
        out.append(c)
    return out


def chunks_equal(x, ca, cb):
    """formula (or bool): two byte strings given as chunk lists are equal"""
    ca, cb = normalise(x, ca), normalise(x, cb)
    if len(ca) != len(cb):
        return False
    r = True
    for p, q in zip(ca, cb):
        if type(p) is not type(q):
            return False
        if isinstance(p, Opaque):
            if p.uid != q.uid:
                return False
            r = x.land(r, z3.And(p.start == q.start, p.ln == q.ln))
        elif isinstance(p, Zeros):
            r = x.land(r, p.ln == q.ln)
        elif isinstance(p, Bytes):
            if len(p.b) != len(q.b):
                return False
            for u, v in zip(p.b, q.b):
                if isinstance(u, int) and isinstance(v, int):
                    if u != v:
                        return False
                elif isinstance(u, tuple) or isinstance(v, tuple):
                    if not (isinstance(u, tuple) and isinstance(v, tuple) and u[1] is v[1] and u[2] == v[2]):
                        return False
                else:
                    r = x.land(r, x.tobv(u, 8).t == x.tobv(v, 8).t)
        else:
            return x.flip('unknown_bytes_equal')
    return r


def ck_equal(x, a, b):
    if isinstance(a, CkVal) and isinstance(b, CkVal):
        return chunks_equal(x, a.chunks, b.chunks)
    # checksum field of a damaged header (arbitrary 64-bit value) vs the checksum of real bytes: assumed never equal
    # (no FNV collision / no adversarially computed checksum) -- stated in the C11 evidence
    return False


# ============================================================================ world / process
def reset_world(x, clock=1_700_000_000_000):
    x.fs = FS()
    x.fs_deleted = []
    x.clock = clock
    x.io_log = []
    x.env_vars = {}
    reset_process(x)


def reset_process(x):
    """a new process: statics are re-initialised, threads are gone; the file system stays"""
    x.globals = {}
    x.threads = []
