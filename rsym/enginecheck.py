"""Check flow shared by the engine-level properties: differential validation, symbolic exploration,
native replay gate, known-finding matching, witness replay."""
import json
import random

from . import engine, envmodel, replay, runner
from .runner import Report

MAXU = 2 ** 64 - 1
KINDS = {
    'C01': {'wrong-entry', 'no-progress', 'phantom', 'read-error', 'panic', 'reopen-failed'},
    'C03': {'cap', 'budget', 'no-progress'},
    'C15': {'count'},
    'C06': {'wrong-entry', 'no-progress', 'phantom', 'read-error', 'panic', 'reopen-failed', 'count'},
    'C02': {'peek-differs', 'peek-side-effect', 'offset-read', 'panic', 'read-error'},
}


def hook_flags(script):
    """scripts with injected faults need the replayer built with the cfg(walrus_verif) hooks"""
    return '--cfg walrus_verif' if any('fault' in o or 'abort_at_event' in o for o in script['ops']) else ''


def concretise(ops, wit, cfg):
    """replay script from the driver's op list and a witness assignment"""
    out = [dict(op='open')]
    for o in ops:
        o = json.loads(json.dumps(o))
        for e in o.get('entries', []):
            if isinstance(e['len'], str):
                e['len'] = wit[e['len']]
        for k in ('budget', 'start_offset'):
            if isinstance(o.get(k), str):
                o[k] = wit[o[k]]
        out.append(o)
    return dict(config=cfg, ops=out)


def judge(script, obs, oracles):
    """reference oracle on native observations: list of (kind, op index, text)"""
    bad = []
    queues, delivered, lens = {}, {}, {}
    peeks = {}
    by_i = {o['i']: o for o in obs}
    for i, op in enumerate(script['ops']):
        o = by_i.get(i)
        kind = op['op']
        topic = op.get('topic', 't')
        q = queues.setdefault(topic, [])
        delivered.setdefault(topic, 0)
        if o is None:
            bad.append(('crash', i, 'no observation (process died or timed out before op %d)' % i))
            break
        if o.get('panic') is not None or o.get('crash') or o.get('timeout'):
            bad.append(('panic', i, 'op %s: %s' % (kind, {k: o[k] for k in o if k in ('panic', 'crash', 'timeout', 'stderr')})))
            if o.get('crash') or o.get('timeout'):
                break
            continue
        if kind in ('append', 'batch_append'):
            if o.get('ok'):
                for e in op['entries']:
                    q.append(e['uid'])
                    lens[e['uid']] = e['len']
        elif kind in ('read_next', 'batch_read') and op.get('start_offset') is None:
            if 'err' in o:
                bad.append(('read-error', i, 'read returned %s' % o))
                continue
            ents = o['entries']
            d = delivered[topic]
            pending = len(q) - d
            k = len(ents)
            if kind == 'batch_read' and k > 2000:
                bad.append(('cap', i, '%d entries' % k))
            if k == 0 and pending > 0:
                bad.append(('no-progress', i, 'empty result, %d pending' % pending))
            if k > pending:
                bad.append(('phantom', i, '%d returned, %d pending' % (k, pending)))
            for j, en in enumerate(ents[:pending]):
                u = q[d + j]
                good = (en.get('uid') == u and en.get('start') == 0 and en.get('len') == lens[u]) or \
                       (lens[u] == 0 and en.get('len') == 0 and 'uid' not in en)
                if not good:
                    bad.append(('wrong-entry', i, 'entry %d is %s, expected uid %d len %d' % (j, en, u, lens[u])))
                    break
            if kind == 'batch_read' and k >= 2:
                tot = sum(lens[u] for u in q[d:d + min(k, pending)])
                if tot > op['budget']:
                    bad.append(('budget', i, 'total %d > budget %d with %d entries' % (tot, op['budget'], k)))
            if op.get('checkpoint', True):
                delivered[topic] = d + min(k, pending)
                pk = peeks.pop(topic, None)
                if pk is not None and pk[0] == kind and pk[1] == op.get('budget') and pk[2] != ents:
                    bad.append(('peek-differs', i, 'peek returned %s, the consuming read with the same arguments %s' % (pk[2], ents)))
            else:
                peeks[topic] = (kind, op.get('budget'), ents)
        elif kind == 'batch_read' and op.get('start_offset') is not None:
            if 'entries' in o and o['entries']:
                ents = []
                for en in o['entries']:
                    # an empty payload carries no identity: it stands for the next entry of the run if that one is empty
                    if en.get('uid') is None and en.get('len') == 0 and ents and ents[-1].get('uid') in q:
                        nxt = q.index(ents[-1]['uid']) + 1
                        if nxt < len(q) and lens[q[nxt]] == 0:
                            en = dict(en, uid=q[nxt], start=0, topic=topic)
                    ents.append(en)
                uids = [en.get('uid') for en in ents]
                okrun = all(u is not None for u in uids) and all(en.get('topic', topic) == topic for en in ents)
                if okrun:
                    pos = [q.index(u) if u in q else None for u in uids]
                    okrun = None not in pos and pos == list(range(pos[0], pos[0] + len(pos))) and \
                        all(en.get('start') == 0 and en.get('len') == lens[en['uid']] for en in ents[1:]) and \
                        ents[0]['start'] + ents[0]['len'] == lens[ents[0]['uid']]
                if not okrun and not all(en.get('len') == 0 for en in ents):
                    bad.append(('offset-read', i, 'offset read returned %s' % ents))
        elif kind == 'count':
            exp = len(q) - delivered[topic]
            if o.get('count') != exp:
                bad.append(('count', i, 'count %s, expected %d' % (o.get('count'), exp)))
        elif kind in ('open', 'reopen'):
            if 'err' in o:
                bad.append(('reopen-failed', i, str(o)))
    return [b for b in bad if b[0] in oracles or b[0] in ('crash',)]


def finding_matches(f, res, script):
    """does a reproduced counterexample fall under a listed known finding?"""
    sig = f.get('signature', {})
    if sig.get('kinds') and res['kind'] not in sig['kinds']:
        return False
    pred = sig.get('input')
    if pred == 'has_empty_payload':
        return any(e['len'] == 0 for o in script['ops'] for e in o.get('entries', []))
    if pred == 'budget_zero':
        return any(o.get('budget') == 0 for o in script['ops'])
    if pred == 'budget_near_max':
        return any(o.get('budget', 0) >= 2 ** 63 for o in script['ops'])
    if pred == 'mmap_entry_over_file_size':
        return script['config'].get('backend') == 'mmap' and any(e['len'] + 256 > 1000 * 1024 * 1024 for o in script['ops'] for e in o.get('entries', []))
    if pred == 'first_append_exceeds_initial_block_and_restart':
        first = {}
        for o in script['ops']:
            if o['op'] in ('append', 'batch_append') and o.get('topic', 't') not in first:
                first[o.get('topic', 't')] = o['entries'][0]['len']
        restarts = any(o['op'] in ('reopen', 'restart_process') for o in script['ops'])
        return restarts and any(v > 10485504 for v in first.values())
    if pred == 'faulted_batch_rotates':
        # a failed batch whose planning had to seal the current block and allocate a new one
        UNIT = 10 * 2 ** 20
        used, limit = {}, {}
        for o in script['ops']:
            if o['op'] not in ('append', 'batch_append'):
                continue
            t = o.get('topic', 't')
            u, l = used.get(t, 0), limit.get(t, UNIT)
            rotated = False
            for e in o['entries']:
                need = 256 + e['len']
                if u + need > l:
                    rotated = True
                    l = max(UNIT, -(-need // UNIT) * UNIT)
                    u = 0
                u += need
            if 'fault' in o:
                if rotated:
                    return True
                continue            # the failed batch leaves the offset where it was
            used[t], limit[t] = u, l
        return False
    if pred == 'any':
        return True
    return False


def run(prop, tier, seed, jobs, oracles, budget_s, diff_scripts, bounds, extra_assumptions=(), cfg=None,
        max_replays=24, workers=None):
    rep = Report(prop, tier, seed)
    runner.clear_replays(prop)
    rep.bounds = bounds
    rep.assumptions = list(envmodel.ASSUMPTIONS) + list(extra_assumptions)
    kinds = KINDS[prop] if isinstance(oracles, str) else oracles
    binp, err = replay.build()
    if not binp:
        rep.inconclusive.append('native replayer does not build against the current tree: ' + err[-600:])
        return rep.finish()
    docs = runner.parse_sources(engine.CORE_FILES)
    cfg = dict(cfg or {})
    cfg.setdefault('oracles', ['C01', 'C03', 'C15'] if prop in ('C01', 'C03', 'C15', 'C06') else [prop])
    cfg['seed'] = seed
    rng = random.Random(seed)
    workers = workers or min(12, runner.ncpu())

    # ---- 1. differential validation: concrete scripts through interpreter and real engine
    djobs = []
    for ds in diff_scripts:
        djobs.append(dict(skel=ds['skel'], backend=ds.get('backend', 'fd'), consistency=ds.get('consistency', 'StrictlyAtOnce'),
                          concrete=dict(sizes=ds['sizes'], budgets=ds.get('budgets', []), offsets=ds.get('offsets', []))))
    if djobs:
        agg = runner.explore_jobs('rsym.drivers.stream', 'mk', docs, djobs, dict(cfg, witness=False, oracles=[]), min(workers, len(djobs)), 300)
        rep.absorb(agg)
        for dj in djobs:
            rs = [r for r in agg['results'] if r['job'] == dj]
            if len(rs) != 1:
                # the model is imprecise on this script (content-dependent behaviour): the real engine alone is judged
                ops = rs[0]['ops'] if rs else None
                if ops is None:
                    rep.notes.append('fixed script %s: interpreter produced no complete path (imprecise); not replayed' % dj['skel'])
                    continue
                wit = {('size%d' % i): v for i, v in enumerate(dj['concrete']['sizes'])}
                wit.update({('budget%d' % i): v for i, v in enumerate(dj['concrete']['budgets'])})
                script = concretise(ops, wit, dict(backend=dj['backend'], consistency=dj['consistency']))
                obs, e = replay.run_script(script, cfg_flags=hook_flags(script))
                rep.replays_run += 1
                v = judge(script, obs, kinds) if not e else None
                if v:
                    script['property'] = prop
                    path = runner.write_replay(prop, 'diff_%s' % dj['skel'].replace(',', '').replace(':', ''), script)
                    rep.violation(path, 'fixed script %s sizes %s: %s' % (dj['skel'], dj['concrete']['sizes'], v[0][2]))
                else:
                    rep.notes.append('fixed script %s: %d interpreter paths (model imprecise here); the real engine satisfies the oracle' % (dj['skel'], len(rs)))
                continue
            r = rs[0]
            wit = {('size%d' % i): v for i, v in enumerate(dj['concrete']['sizes'])}
            wit.update({('budget%d' % i): v for i, v in enumerate(dj['concrete']['budgets'])})
            wit.update({('offset%d' % i): v for i, v in enumerate(dj['concrete'].get('offsets', []))})
            script = concretise(r['ops'], wit, dict(backend=dj['backend'], consistency=dj['consistency']))
            obs, e = replay.run_script(script, cfg_flags=hook_flags(script))
            rep.replays_run += 1
            if e:
                rep.inconclusive.append(e)
                continue
            mism = compare_obs(r['obs'], obs)
            if mism:
                rep.inconclusive.append('MODEL-MISMATCH: script %s %s: %s' % (dj['skel'], dj['concrete'], mism))
            else:
                rep.replays_agreed += 1
                v = judge(script, obs, kinds)
                if v:
                    script['property'] = prop
                    path = runner.write_replay(prop, 'diff_%s' % dj['skel'].replace(',', '').replace(':', ''), script)
                    rep.violation(path, 'fixed script %s sizes %s: %s' % (dj['skel'], dj['concrete']['sizes'], v[0][2]))
    if rep.inconclusive or rep.violations:
        return rep.finish()

    # ---- 2. symbolic exploration
    import sys as _sys, time as _t
    _t0 = _t.time()
    print('[phase] differential done at %.0fs' % (_t0 - rep.t0), file=_sys.stderr)
    agg = runner.explore_jobs('rsym.drivers.stream', 'mk', docs, jobs, cfg, workers, budget_s)
    rep.absorb(agg)
    res = agg['results']
    rep.states += len(res)
    for r in res:
        if 'imprecise' in r.get('flags', []):
            rep.paths_imprecise += 1
    cex = [r for r in res if r['verdict'] == 'cex' and r['kind'] in kinds]
    oks = [r for r in res if r['verdict'] == 'ok']
    other = [r for r in res if r['verdict'] == 'cex' and r['kind'] not in kinds]
    rep.extra['path_classes'] = dict(ok=len(oks), counterexample=len(cex), other_property=len(other))
    rep.extra['skeletons'] = sorted({r['job']['skel'] for r in res})
    rep.extra['jobs'] = len(jobs)

    print('[phase] exploration took %.0fs, %d results' % (_t.time() - _t0, len(res)), file=_sys.stderr)
    # ---- 3. replay gate
    findings = runner.load_findings(prop)
    groups = {}
    for r in cex:
        if not r.get('witness'):
            continue
        key = (r['kind'], r['job']['skel'], r['op_index'])
        tot = sum(v for k, v in r['witness'].items() if k.startswith('size'))
        if key not in groups or tot < groups[key][0]:
            groups[key] = (tot, r)
    order = sorted(groups.values(), key=lambda t: t[0])
    reported = set()
    nrep = 0
    for tot, r in order:
        if nrep >= max_replays:
            break
        jcfg = dict(backend=r['job'].get('backend', 'fd'), consistency=r['job'].get('consistency', 'StrictlyAtOnce'),
                    persist_every=r['job'].get('persist_every', 1))
        script = concretise(r['ops'], r['witness'], jcfg)
        script['property'] = prop
        script['expected_violation'] = dict(kind=r['kind'], op_index=r['op_index'], detail=r['detail'])
        fm = [f for f in findings if f.get('status') == 'known' and finding_matches(f, r, script)]
        if fm and all(f['id'] in reported for f in fm):
            continue
        nrep += 1
        obs, e = replay.run_script(script, cfg_flags=hook_flags(script))
        rep.replays_run += 1
        if e:
            rep.inconclusive.append(e)
            break
        v = judge(script, obs, kinds)
        if not v:
            rep.inconclusive.append('MODEL-MISMATCH: solver counterexample does not reproduce natively: %s %s witness %s (native obs %s)'
                                    % (r['kind'], r['job'], r['witness'], json.dumps(obs)[:600]))
            continue
        rep.replays_agreed += 1
        text = '%s: %s [skeleton %s, backend %s, %s] native: %s' % (r['kind'], r['detail'], r['job']['skel'], jcfg['backend'], jcfg['consistency'], v[0][2])
        if fm:
            f = fm[0]
            reported.add(f['id'])
            rep.known.append('%s (%s)' % (f['summary'], f['id']))
            continue
        name = '%s_%s_op%d_%d' % (r['kind'], r['job']['skel'].replace(',', '').replace(':', ''), r['op_index'], nrep)
        path = runner.write_replay(prop, name, script)
        rep.violation(path, text)
    # re-demonstrate listed findings that the search did not hit this time is not required; they are only reported when reproduced

    print('[phase] replay gate done at %.0fs' % (_t.time() - rep.t0), file=_sys.stderr)
    # ---- 4. witness replay of passing path classes (model fidelity)
    nw = 6 if tier == 'quick' else 40
    cand = [r for r in oks if r.get('witness') and sum(v for k, v in r['witness'].items() if k.startswith('size')) < 64 * 2 ** 20]
    for r in rng.sample(cand, min(nw, len(cand))):
        jcfg = dict(backend=r['job'].get('backend', 'fd'), consistency=r['job'].get('consistency', 'StrictlyAtOnce'),
                    persist_every=r['job'].get('persist_every', 1))
        script = concretise(r['ops'], r['witness'], jcfg)
        obs, e = replay.run_script(script, cfg_flags=hook_flags(script))
        rep.replays_run += 1
        if e:
            rep.inconclusive.append(e)
            break
        mism = compare_obs(r['obs'], obs)
        v = judge(script, obs, kinds)
        if mism or v:
            rep.inconclusive.append('MODEL-MISMATCH: passing path class disagrees with the real engine: %s witness %s: %s %s'
                                    % (r['job'], r['witness'], mism, v))
        else:
            rep.replays_agreed += 1
    for r in (cex[:3] + oks[:4]):
        rep.samples.append(dict(skeleton=r['job']['skel'], backend=r['job'].get('backend'), verdict=r['verdict'], kind=r.get('kind'),
                                detail=r.get('detail'), witness=r.get('witness'), predicted_observations=r.get('obs')))
    return rep.finish()


def compare_obs(pred, obs):
    """predicted observations (per driver op) vs native (per script op; op 0 is the initial open)"""
    nat = [o for o in obs if o['i'] >= 1]
    if len(nat) < len(pred):
        return 'native run produced %d observations, interpreter predicted %d: %s' % (len(nat), len(pred), json.dumps(obs)[-300:])
    for p, o in zip(pred, nat):
        if 'n' in p:
            if 'entries' not in o or len(o['entries']) != p['n']:
                return 'op %d: predicted %d entries, native %s' % (o['i'], p['n'], json.dumps(o)[:200])
        elif 'count' in p:
            if o.get('count') != p['count']:
                return 'op %d: predicted count %d, native %s' % (o['i'], p['count'], o)
        elif 'err' in p:
            if 'err' not in o:
                return 'op %d: predicted error %s, native %s' % (o['i'], p['err'], o)
        elif 'ok' in p:
            if not o.get('ok'):
                return 'op %d: predicted ok, native %s' % (o['i'], o)
        elif 'panic' in p:
            if 'panic' not in o and not o.get('crash'):
                return 'op %d: predicted panic, native %s' % (o['i'], o)
    return None
