#!/usr/bin/env python3
"""Spike: interpret the real tracker code (BlockStateTracker / FileStateTracker / flush_check) from allocator.rs."""
import sys, time
import z3
sys.path.insert(0, '/tmp/spike')
import rsym2 as R
from rsym2 import *

# remove the no-op stubs so the real source is interpreted
for k in list(R.FN_MODELS):
    if k.startswith('BlockStateTracker::') or k.startswith('FileStateTracker::') or k == 'flush_check': del R.FN_MODELS[k]

class OnceLockV:
    def __init__(s): s.v = None
R.FN_MODELS['OnceLock::new'] = lambda x, a, e: OnceLockV()
def m_get_or_init(x, r, a, e):
    if r.v is None: r.v = x.call_closure(a[0], [])
    return r.v
R.METHOD_MODELS[('OnceLockV', 'get_or_init')] = m_get_or_init
R.METHOD_MODELS[('OnceLockV', 'get')] = lambda x, r, a, e: Some(r.v) if r.v is not None else NONE
R.FN_MODELS['AtomicU16::new'] = R.f_atomic_new
def fetch_add(x, r, a, e):
    old = x.tobv(r.v, 16); r.v = BV(z3.simplify(old.t + x.tobv(a[0], 16).t), 16); return old
def fetch_sub(x, r, a, e):
    old = x.tobv(r.v, 16); r.v = BV(z3.simplify(old.t - x.tobv(a[0], 16).t), 16); return old
R.METHOD_MODELS[('Atomic', 'fetch_add')] = fetch_add
R.METHOD_MODELS[('Atomic', 'fetch_sub')] = fetch_sub
def key(x, k):
    if isinstance(k, PStr): return k.v
    if isinstance(k, tuple) and k and k[0] == 'intlit': return k[1]
    if isinstance(k, BV): return x.concretize(k.t)
    return k
R.METHOD_MODELS[('VMap', 'get')] = lambda x, r, a, e: Some(r.d[key(x, a[0])]) if key(x, a[0]) in r.d else NONE
def m_entry(x, r, a, e): return R.EntryV(r, key(x, a[0]))
R.METHOD_MODELS[('VMap', 'entry')] = m_entry
class DelChan:
    def __init__(s): s.sent = []
R.METHOD_MODELS[('DelChan', 'send')] = lambda x, r, a, e: (r.sent.append(a[0].v), Ok(UNIT))[1]

# local `static` items inside fn bodies -> per-execution globals
_old_block = R.Exec.block
def block(self, b, env):
    for st in b['stmts']:
        if st['k'] == 'item' and st['item']['k'] == 'static':
            it = st['item']; gname = 'local_static:%s:%d' % (it['name'], it.get('line', 0))
            if gname not in self.globals: self.globals[gname] = Cell(self.eval(it['e'], [{}]))
            env.append({it['name']: self.globals[gname]})
            try:
                return _old_block(self, b, env)
            finally:
                env.pop()
    return _old_block(self, b, env)
R.Exec.block = block

def driver(x):
    P = x.p
    ch = DelChan()
    once = OnceLockV(); once.v = Arc(ch)
    x.globals['DELETION_TX'] = Cell(once)
    call = lambda ty, name, *args: x.call_fn(P.methods[(ty, name)], list(args))
    f = PStr('f0')
    call('FileStateTracker', 'register_file_if_absent', f)
    for bid in (1, 2):
        call('BlockStateTracker', 'register_block', BV(bv64(bid), 64), f)
        call('FileStateTracker', 'add_block_to_file_state', f)
        call('FileStateTracker', 'set_block_locked', BV(bv64(bid), 64))
    call('FileStateTracker', 'set_fully_allocated', f)
    for bid in (1, 2):
        call('FileStateTracker', 'set_block_unlocked', BV(bv64(bid), 64))
    # consumer of block 1 finishes its block; block 2 is never consumed. Poll k times (k symbolic 1..3).
    consumed = set()
    for i in range(3):
        if i > 0 and not x.branch(z3.Bool('poll_again_%d' % i)): break
        call('BlockStateTracker', 'set_checkpointed_true', BV(bv64(1), 64)); consumed.add(1)
    snap = x.deref(call('FileStateTracker', 'get_state_snapshot', f))
    if ch.sent and consumed != {1, 2}:
        return ('CEX', 'file %s sent to deletion after %d polls; blocks truly consumed %r of 2' % (ch.sent[0], i + (0 if i == 2 else 0), sorted(consumed)), repr(snap))
    return ('ok', len(ch.sent), repr(snap))

if __name__ == '__main__':
    prog = R.Program('/tmp/spike/core.jsonl')
    x = R.Exec(prog)
    t = time.time()
    try:
        res = x.explore(driver, max_paths=100)
    except R.Unsupported as u:
        print('UNSUPPORTED', u, getattr(u, 'stk', None)); sys.exit(3)
    print(x.stats, '%.2fs' % (time.time() - t))
    for r in res: print(r)
