#!/usr/bin/env python3
"""Spike: crash at a symbolic I/O event (process-crash model), then the real recovery, then reads. Sequential/mmap path."""
import sys, time
import z3
sys.path.insert(0, '/tmp/spike')
import rsym2 as R
import batch_spike as B     # reuse PtrCell/Drop/local impl support (io_uring model unused here)
from rsym2 import *

class Crash(Exception): pass

_old_write = R.Exec.mmap_write
def mmap_write(self, mm, off, buf):
    if getattr(self, 'crash_armed', False) and not self.crashed:
        # crash *before* this write takes effect?
        if self.branch(z3.Bool('crash_before_event_%d' % self.events)):
            self.crashed = True; raise Crash()
    self.events = getattr(self, 'events', 0) + 1
    return _old_write(self, mm, off, buf)
R.Exec.mmap_write = mmap_write

def driver(skel):
    def d(x):
        w = R.mk_walrus(x)
        x.globals['USE_FD_BACKEND'] = R.Cell(R.Atomic(False))
        x._batch_guard_live = False
        x.events = 0; x.crashed = False; x.crash_armed = True; x.fault = None
        M = x.p.methods
        uid = 0; acked = []; inflight = []; sizes = []; batch_ids = None
        try:
            for op in skel:
                if op == 'a':
                    s = x.symbv('size'); x.solver.add(z3.ULE(s.t, R.SIZECAP), z3.UGE(s.t, 1)); sizes.append(s)
                    inflight = [uid]
                    r = x.deref(x.call_fn(M[('Walrus', 'append_for_topic')], [PStr('t'), R.payload(x, uid, s)], w))
                    if r.variant == 'Ok': acked.append(uid)
                    inflight = []; uid += 1
                elif op.startswith('A'):
                    n = int(op[1:]); items = []; ids = []
                    for _ in range(n):
                        s = x.symbv('bsize'); x.solver.add(z3.ULE(s.t, R.SIZECAP), z3.UGE(s.t, 1)); sizes.append(s)
                        items.append(R.payload(x, uid, s)); ids.append(uid); uid += 1
                    inflight = ids; batch_ids = ids
                    r = x.deref(x.call_fn(M[('Walrus', 'batch_append_for_topic')], [PStr('t'), R.VVec(items)], w))
                    if r.variant == 'Ok': acked.extend(ids)
                    inflight = []
        except Crash:
            pass
        x.crash_armed = False
        w2 = R.reopen(x, w)
        got = []
        for _ in range(uid + 2):
            r = x.deref(x.call_fn(M[('Walrus', 'read_next')], [PStr('t'), True], w2))
            if r.variant != 'Ok': break
            o = x.deref(r.f[0])
            if o.variant != 'Some': break
            ds = R.entry_desc(x, o.f[0]); got.append(ds[0][1] if ds else None)
        # C07: got = acked + prefix-subset of inflight (in order), nothing else
        ok7 = got[:len(acked)] == acked and all(g in inflight for g in got[len(acked):]) and got[len(acked):] == sorted(got[len(acked):])
        # C08: if the crash interrupted the batch, recovered batch entries are none or all
        rec_batch = [g for g in got if batch_ids and g in batch_ids]
        ok8 = (not batch_ids) or len(rec_batch) in (0, len(batch_ids))
        verdict = 'ok' if (ok7 and ok8) else ('C08' if ok7 else 'C07')
        m = None
        if verdict != 'ok' and x.check() == z3.sat:
            mdl = x.solver.model(); m = [mdl.eval(s.t, model_completion=True).as_long() for s in sizes]
        return (verdict, 'crashed=%s events=%d acked=%r inflight=%r got=%r' % (x.crashed, x.events, acked, inflight, got), m)
    return d

if __name__ == '__main__':
    prog = R.Program('/tmp/spike/core.jsonl')
    x = R.Exec(prog)
    skel = sys.argv[1].split(',')
    t = time.time()
    try:
        res = x.explore(driver(skel), max_paths=int(sys.argv[2]) if len(sys.argv) > 2 else 2000)
    except R.Unsupported as u:
        print('UNSUPPORTED', u, getattr(u, 'stk', None)); sys.exit(3)
    from collections import Counter
    print(x.stats, 'results', len(res), '%.1fs' % (time.time() - t))
    print(Counter(r[0] for r in res))
    for v in ('C07', 'C08'):
        for b in [r for r in res if r[0] == v][:3]: print(b)
