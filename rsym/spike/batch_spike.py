#!/usr/bin/env python3
"""Spike: real Writer::batch_write + submit_batch_via_io_uring interpreted with an io_uring model and fault injection."""
import sys, time
import z3
sys.path.insert(0, '/tmp/spike')
import rsym2 as R
from rsym2 import *

# ---- signed i32 support
class SBV(BV):
    pass
_old_binop = R.Exec.binop
def binop(self, op, a, b):
    a0, b0 = self.deref(a), self.deref(b)
    if isinstance(a0, SBV) or isinstance(b0, SBV):
        a1, b1 = self.coerce(a0, b0)
        x, y = a1.t, b1.t
        if op == '<': return x < y
        if op == '>': return x > y
        if op == '<=': return x <= y
        if op == '>=': return x >= y
    return _old_binop(self, op, a, b)
R.Exec.binop = binop
_old_cast = R.Exec.e_cast
def e_cast(self, e, env):
    v = self.deref(self.eval(e['e'], env))
    if isinstance(v, SBV) and e['ty'] in ('usize', 'u64'):
        return BV(z3.SignExt(64 - v.bits, v.t), 64)
    return _old_cast(self, e, env)
R.Exec.e_cast = e_cast

# ---- &mut *guard as a pointer to the cell
class PtrCell:
    def __init__(s, cell): s.cell = cell
_old_ref = R.Exec.e_ref
def e_ref(self, e, env):
    inner = e['e']
    if e.get('mut') and inner['k'] == 'unary' and inner['op'] == '*':
        v = self.eval(inner['e'], env)
        if isinstance(v, Guard): return PtrCell(v.lock.cell)
    return _old_ref(self, e, env)
R.Exec.e_ref = e_ref
_old_deref = R.Exec.deref
def deref(self, v):
    while True:
        v = _old_deref(self, v)
        if isinstance(v, PtrCell): v = v.cell.v
        else: return v
R.Exec.deref = deref
_old_place = R.Exec.place
def place(self, e, env):
    if e['k'] == 'unary' and e['op'] == '*':
        v = self.eval(e['e'], env)
        if isinstance(v, PtrCell):
            c = v.cell
            return (lambda: c.v), (lambda x: setattr(c, 'v', x))
    return _old_place(self, e, env)
R.Exec.place = place
_old_unary = R.Exec.e_unary
def e_unary(self, e, env):
    if e['op'] == '*':
        v = self.eval(e['e'], env)
        if isinstance(v, PtrCell): return v.cell.v
        if isinstance(v, Guard): return v.lock.cell.v
        if isinstance(v, R.Cell): return v.v
        if isinstance(v, R.CellRef): return v.d[v.k]
        return v
    return _old_unary(self, e, env)
R.Exec.e_unary = e_unary

# ---- local impl items + Drop at scope exit
_old_block = R.Exec.block
def block(self, b, env):
    for st in b['stmts']:
        if st['k'] == 'item' and st['item']['k'] == 'impl':
            it = st['item']; ty = it['self_ty'].split('<')[0]
            for m in it['items']:
                if m['k'] == 'fn': m['_ty'] = ty; self.p.methods[(ty, m['sig']['name'])] = m
    depth = len(env)
    # we need the scope to run drops; replicate by wrapping: run old block but capture scope via hook
    self._scopes = getattr(self, '_scopes', [])
    try:
        return _old_block(self, b, env)
    finally:
        pass
R.Exec.block = block
# simpler Drop support: run drop for BatchGuard when batch_write returns (any way)
_old_call_fn2 = R.Exec.call_fn2
def call_fn2(self, item, args, self_val=None):
    if item['sig']['name'] == 'batch_write':
        try:
            return _old_call_fn2(self, item, args, self_val)
        finally:
            # BatchGuard::drop semantics: the flag is released iff the guard was created; the guard is created
            # right after the successful compare_exchange. We emulate by interpreting Drop when the flag is set by us.
            if getattr(self, '_batch_guard_live', False):
                self_val.f['is_batch_writing'].v = False
                self._batch_guard_live = False
    return _old_call_fn2(self, item, args, self_val)
R.Exec.call_fn2 = call_fn2
_old_struct = R.Exec.e_struct
def e_struct(self, e, env):
    v = _old_struct(self, e, env)
    if isinstance(v, Struct) and v.name == 'BatchGuard': self._batch_guard_live = True
    return v
R.Exec.e_struct = e_struct

# ---- io_uring model
class Ring:
    def __init__(s): s.sq, s.cq = [], []
class Op:
    def __init__(s, kind, mm, buf, ln): s.kind, s.mm, s.buf, s.ln, s.off, s.ud = kind, mm, buf, ln, None, None
class Cqe:
    def __init__(s, ud, res): s.ud, s.res = ud, res
class FdModel:
    def __init__(s, mm): s.mm = mm
def f_ring_new(x, a, e):
    return Ok(Ring())
def f_write_new(x, a, e): return Op('write', a[0], x.deref(a[1]), a[2])
R.FN_MODELS['io_uring::IoUring::new'] = f_ring_new
R.FN_MODELS['io_uring::opcode::Write::new'] = f_write_new
R.FN_MODELS['io_uring::types::Fd'] = lambda x, a, e: a[0]
R.FN_MODELS['usize::try_from'] = lambda x, a, e: Ok(a[0])
R.FN_MODELS['HashSet::new'] = lambda x, a, e: R.VSet()
MM = R.METHOD_MODELS
MM[('Mmap', 'storage')] = lambda x, r, a, e: r
MM[('Mmap', 'as_fd')] = lambda x, r, a, e: Some(FdModel(r))
MM[('FdModel', 'file')] = lambda x, r, a, e: r
MM[('FdModel', 'as_raw_fd')] = lambda x, r, a, e: r.mm
MM[('Buffer', 'as_ptr')] = lambda x, r, a, e: r
def op_set(field):
    def f(x, r, a, e):
        if a: setattr(r, field, a[0])
        return r
    return f
MM[('Op', 'offset')] = op_set('off'); MM[('Op', 'build')] = op_set('_'); MM[('Op', 'user_data')] = op_set('ud')
MM[('Ring', 'submission')] = lambda x, r, a, e: r
MM[('Ring', 'completion')] = lambda x, r, a, e: r
def ring_push(x, r, a, e): r.sq.append(a[0]); return Ok(UNIT)
MM[('Ring', 'push')] = ring_push
def ring_submit(x, r, a, e):
    fault = x.fault
    if fault == 'submit_err':
        return Err(Struct('IoError', {'kind': ('const', 'Other')}))
    for i, op in enumerate(r.sq):
        if fault == ('cqe_neg', i):
            r.cq.append(Cqe(op.ud, SBV(z3.BitVecVal(-5 & 0xffffffff, 32), 32)))   # write did not happen
        else:
            x.mmap_write(op.mm, op.off, op.buf)
            r.cq.append(Cqe(op.ud, SBV(z3.Extract(31, 0, x.tobv(op.ln).t) if x.tobv(op.ln).bits > 32 else x.tobv(op.ln).t, 32)))
    r.sq = []
    return Ok(BV(bv64(len(r.cq)), 64))
MM[('Ring', 'submit_and_wait')] = ring_submit
def ring_next(x, r, a, e):
    return Some(r.cq.pop(0)) if r.cq else NONE
MM[('Ring', 'next')] = ring_next
MM[('Cqe', 'user_data')] = lambda x, r, a, e: x.tobv(r.ud)
MM[('Cqe', 'result')] = lambda x, r, a, e: r.res
MM[('VSet', 'contains')] = lambda x, r, a, e: (a[0].v if isinstance(a[0], PStr) else a[0]) in r.items
MM[('*', 'unwrap_or')] = R.m_unwrap_or
MM[('Struct', 'contains')] = lambda x, r, a, e: False
R.FN_MODELS['FileStateTracker::set_block_unlocked'] = R.f_noop

def driver(skel):
    def d(x):
        w = R.mk_walrus(x)
        x.globals['USE_FD_BACKEND'] = R.Cell(R.Atomic(True))   # writer takes the io_uring branch
        x._batch_guard_live = False
        M = x.p.methods
        uid = 0; queue = []; sizes = []
        # fault choice
        x.fault = None
        if x.branch(z3.Bool('fault_submit')): x.fault = 'submit_err'
        elif x.branch(z3.Bool('fault_cqe0')): x.fault = ('cqe_neg', 0)
        elif x.branch(z3.Bool('fault_cqe1')): x.fault = ('cqe_neg', 1)
        log = []
        for op in skel:
            if op == 'a':
                s = x.symbv('size'); x.solver.add(z3.ULE(s.t, R.SIZECAP)); sizes.append(s)
                r = x.deref(x.call_fn(M[('Walrus', 'append_for_topic')], [PStr('t'), R.payload(x, uid, s)], w))
                if r.variant == 'Ok': queue.append(uid)
                log.append(('a', r.variant)); uid += 1
            elif op.startswith('A'):
                n = int(op[1:]); items = []; ids = []
                for _ in range(n):
                    s = x.symbv('bsize'); x.solver.add(z3.ULE(s.t, R.SIZECAP)); sizes.append(s)
                    items.append(R.payload(x, uid, s)); ids.append(uid); uid += 1
                r = x.deref(x.call_fn(M[('Walrus', 'batch_append_for_topic')], [PStr('t'), R.VVec(items)], w))
                if r.variant == 'Ok': queue.extend(ids)
                log.append(('A', r.variant))
        # drain with read_next (mmap read path for reads)
        x.globals['USE_FD_BACKEND'] = R.Cell(R.Atomic(False))
        got = []
        for _ in range(len(queue) + 2):
            r = x.deref(x.call_fn(M[('Walrus', 'read_next')], [PStr('t'), True], w))
            if r.variant != 'Ok': break
            o = x.deref(r.f[0])
            if o.variant != 'Some': break
            ds = R.entry_desc(x, o.f[0]); got.append(ds[0][1] if ds else None)
        if got != queue:
            m = None
            if x.check() == z3.sat:
                mdl = x.solver.model(); m = [mdl.eval(s.t, model_completion=True).as_long() for s in sizes]
            return ('CEX', 'fault=%r' % (x.fault,), tuple(log), 'expected %r got %r' % (queue, got), m)
        return ('ok', x.fault, tuple(log))
    return d

if __name__ == '__main__':
    prog = R.Program('/tmp/spike/core.jsonl')
    x = R.Exec(prog)
    skel = sys.argv[1].split(',')
    t = time.time()
    try:
        res = x.explore(driver(skel), max_paths=int(sys.argv[2]) if len(sys.argv) > 2 else 3000)
    except R.Unsupported as u:
        print('UNSUPPORTED', u, getattr(u, 'stk', None)); sys.exit(3)
    from collections import Counter
    bad = [r for r in res if r[0] == 'CEX']
    print(x.stats, 'results', len(res), 'cex', len(bad), '%.1fs' % (time.time() - t))
    print(Counter((r[0], str(r[1])) for r in res))
    for b in [b for b in bad if b[1] == 'fault=None'][:6]: print(b)
    for b in [b for b in bad if 'cqe' in b[1]][:3]: print(b)
