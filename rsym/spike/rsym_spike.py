#!/usr/bin/env python3
"""Spike: re-execution-forking symbolic interpreter over rs2json output (tiny subset)."""
import json, sys, time
import z3

# ----------------------------------------------------------------------------- program
class Program:
    def __init__(self, paths):
        self.fns = {}        # name -> item
        self.methods = {}    # (type, name) -> item
        self.structs = {}
        self.enums = {}
        self.consts = {}
        for line in open(paths):
            doc = json.loads(line)
            self.load_items(doc['items'])
    def load_items(self, items):
        for it in items:
            k = it['k']
            if k == 'fn': self.fns[it['sig']['name']] = it
            elif k == 'impl':
                for m in it['items']:
                    if m['k'] == 'fn': self.methods[(it['self_ty'], m['sig']['name'])] = m
            elif k == 'struct': self.structs[it['name']] = it
            elif k == 'enum': self.enums[it['name']] = it
            elif k in ('const', 'static'): self.consts[it['name']] = it
            elif k == 'mod' and it.get('items'): self.load_items(it['items'])

# ----------------------------------------------------------------------------- values
class BV:      # machine integer
    def __init__(s, term, bits): s.t, s.bits = term, bits
class IntU:    # unsigned integer kept in Int sort (string drivers)
    def __init__(s, term, bits=64): s.t, s.bits = term, bits
class VStr:    # path-concrete-length vector of Int code points
    def __init__(s, chars): s.c = list(chars)
class Struct:
    def __init__(s, name, fields): s.name, s.f = name, fields
class EnumV:
    def __init__(s, enum, variant, fields=None): s.enum, s.variant, s.f = enum, variant, fields or []
class Cell:
    def __init__(s, v): s.v = v
class Unit: pass
UNIT = Unit()

class Return(Exception):
    def __init__(s, v): s.v = v
class PathEnd(Exception): pass
class Unsupported(Exception): pass

def Some(v): return EnumV('Option', 'Some', [v])
NONE = EnumV('Option', 'None')
def Ok(v): return EnumV('Result', 'Ok', [v])
def Err(v): return EnumV('Result', 'Err', [v])

# ----------------------------------------------------------------------------- executor
class Exec:
    def __init__(self, prog):
        self.p = prog
        self.solver = z3.Solver()
        self.stats = dict(paths=0, queries=0, solver_s=0.0)
    # --- forking by re-execution
    def explore(self, driver):
        work = [[]]
        results = []
        while work:
            self.decisions = work.pop()
            self.pos = 0
            self.new_alts = []
            self.solver.push()
            self.fresh = 0
            try:
                r = driver(self)
                results.append(r)
            except PathEnd:
                pass
            self.solver.pop()
            self.stats['paths'] += 1
            work.extend(self.new_alts)
        return results
    def check(self, *extra):
        t = time.time(); self.stats['queries'] += 1
        r = self.solver.check(*extra)
        self.stats['solver_s'] += time.time() - t
        return r
    def branch(self, cond):
        """cond: python bool or z3 Bool. returns python bool chosen on this path."""
        if isinstance(cond, bool): return cond
        cond = z3.simplify(cond)
        if z3.is_true(cond): return True
        if z3.is_false(cond): return False
        if self.pos < len(self.decisions):
            d = self.decisions[self.pos]; self.pos += 1
            self.solver.add(cond if d else z3.Not(cond))
            return d
        can_t = self.check(cond) == z3.sat
        can_f = self.check(z3.Not(cond)) == z3.sat
        if can_t and can_f:
            self.new_alts.append(self.decisions[:self.pos] + [False])
            self.decisions = self.decisions[:self.pos] + [True]; self.pos += 1
            self.solver.add(cond); return True
        if can_t:
            self.decisions = self.decisions[:self.pos] + [True]; self.pos += 1
            self.solver.add(cond); return True
        if can_f:
            self.decisions = self.decisions[:self.pos] + [False]; self.pos += 1
            self.solver.add(z3.Not(cond)); return False
        raise PathEnd()
    def choose(self, n, what):
        """fork over an integer choice 0..n-1 (used for lengths)."""
        for i in range(n - 1):
            if self.branch(z3.Bool('%s_is_%d_%d' % (what, i, self.pos))): return i
        return n - 1
    def sym(self, name, sort='bv64'):
        self.fresh += 1
        nm = '%s#%d' % (name, self.fresh)
        if sort == 'bv64': return BV(z3.BitVec(nm, 64), 64)
        if sort == 'bv32': return BV(z3.BitVec(nm, 32), 32)
        if sort == 'int': return z3.Int(nm)
        raise Unsupported(sort)

    # --- calls
    def call_fn(self, item, args, self_val=None):
        env = [{}]
        params = item['sig']['params']
        ai = 0
        for prm in params:
            if prm.get('self'):
                env[0]['self'] = Cell(self_val)
            else:
                self.bind(prm['pat'], args[ai], env); ai += 1
        try:
            return self.block(item['body'], env)
        except Return as r:
            return r.v

    # --- patterns
    def bind(self, pat, val, env):
        k = pat['k']
        if k == 'ident': env[-1][pat['name']] = Cell(val); return True
        if k == 'wild': return True
        if k == 'typed': return self.bind(pat['pat'], val, env)
        if k == 'ref': return self.bind(pat['pat'], val, env)
        if k == 'tuple':
            for p, v in zip(pat['elems'], val): self.bind(p, v, env)
            return True
        raise Unsupported('bind ' + k)
    def match(self, pat, val, env):
        k = pat['k']
        if k in ('ident', 'wild', 'typed', 'tuple'):
            if k == 'ident' and pat['name'] in ('None',) : return isinstance(val, EnumV) and val.variant == 'None'
            return self.bind(pat, val, env)
        if k == 'path':
            name = pat['path']['segs'][-1]['id']
            return isinstance(val, EnumV) and val.variant == name
        if k == 'tuple_struct':
            name = pat['path']['segs'][-1]['id']
            if not (isinstance(val, EnumV) and val.variant == name): return False
            for p, v in zip(pat['elems'], val.f):
                if not self.match(p, v, env): return False
            return True
        if k == 'struct':
            name = pat['path']['segs'][-1]['id']
            if isinstance(val, EnumV):
                if val.variant != name: return False
                fields = val.f
            else: fields = val.f
            for f in pat['fields']:
                if not self.match(f['pat'], fields[f['name']], env): return False
            return True
        raise Unsupported('match ' + k)

    # --- statements / blocks
    def block(self, b, env):
        env.append({})
        try:
            last = UNIT
            for st in b['stmts']:
                last = UNIT
                if st['k'] == 'let':
                    v = self.eval(st['init'], env) if st['init'] else None
                    self.bind(st['pat'], v, env)
                elif st['k'] == 'expr':
                    v = self.eval(st['e'], env)
                    if not st['semi']: last = v
                elif st['k'] == 'item':
                    pass
            return last
        finally:
            env.pop()
    def lookup(self, name, env):
        for sc in reversed(env):
            if name in sc: return sc[name]
        return None

    # --- expressions
    def eval(self, e, env):
        k = e['k']
        m = getattr(self, 'e_' + k, None)
        if not m: raise Unsupported('expr %s line %s' % (k, e.get('line')))
        return m(e, env)
    def e_lit(self, e, env):
        t = e['t']
        if t == 'int':
            bits = {'u8': 8, 'u16': 16, 'u32': 32, 'u64': 64, 'usize': 64, '': 0}.get(e['suffix'], 64)
            return ('intlit', int(e['v']), bits)
        if t == 'bool': return e['v']
        if t == 'str': return VStr([z3.IntVal(ord(c)) for c in e['v']])
        if t == 'char': return z3.IntVal(e['v'])
        raise Unsupported('lit ' + t)
    def e_path(self, e, env):
        segs = e['path']['segs']
        name = segs[-1]['id']
        if len(segs) == 1:
            c = self.lookup(name, env)
            if c is not None: return c.v
            if name == 'None': return NONE
            if name in self.p.consts: return self.eval(self.p.consts[name]['e'], env)
        else:
            en = segs[-2]['id']
            if en in self.p.enums: return EnumV(en, name)
        raise Unsupported('path ' + e['path']['s'])
    def coerce(self, a, b):
        def lift(x, like):
            if isinstance(x, tuple) and x[0] == 'intlit':
                if isinstance(like, BV): return BV(z3.BitVecVal(x[1], like.bits), like.bits)
                if isinstance(like, IntU): return IntU(z3.IntVal(x[1]), like.bits)
                if isinstance(like, int) and not isinstance(like, bool): return x[1]
                bits = x[2] or 64
                return BV(z3.BitVecVal(x[1], bits), bits)
            return x
        a2 = lift(a, b); b2 = lift(b, a2)
        return a2, b2
    def e_binary(self, e, env):
        op = e['op']
        if op == '&&':
            l = self.eval(e['l'], env)
            if not self.branch(l): return False
            return self.eval(e['r'], env)
        if op == '||':
            l = self.eval(e['l'], env)
            if self.branch(l): return True
            return self.eval(e['r'], env)
        a, b = self.coerce(self.eval(e['l'], env), self.eval(e['r'], env))
        if isinstance(a, BV):
            x, y = a.t, b.t
            r = {'+': lambda: BV(x + y, a.bits), '-': lambda: BV(x - y, a.bits), '*': lambda: BV(x * y, a.bits),
                 '<': lambda: z3.ULT(x, y), '<=': lambda: z3.ULE(x, y), '>': lambda: z3.UGT(x, y), '>=': lambda: z3.UGE(x, y),
                 '==': lambda: x == y, '!=': lambda: x != y}[op]()
            return r
        if isinstance(a, IntU):
            x, y = a.t, b.t
            return {'==': lambda: x == y, '!=': lambda: x != y, '<': lambda: x < y, '>=': lambda: x >= y}[op]()
        if isinstance(a, int) and isinstance(b, int):
            return {'!=': a != b, '==': a == b, '<': a < b, '>': a > b, '>=': a >= b, '<=': a <= b}[op]
        if z3.is_expr(a) or z3.is_expr(b):
            return {'==': lambda: a == b, '!=': lambda: a != b}[op]()
        raise Unsupported('binary %s on %r' % (op, type(a)))
    def e_unary(self, e, env):
        v = self.eval(e['e'], env)
        if e['op'] == '!':
            return (not v) if isinstance(v, bool) else z3.Not(v)
        if e['op'] == '*': return v
        raise Unsupported('unary ' + e['op'])
    def e_field(self, e, env):
        b = self.eval(e['base'], env)
        if isinstance(b, Struct): return b.f[e['member']]
        raise Unsupported('field on %r' % type(b))
    def e_assign(self, e, env):
        v = self.eval(e['r'], env)
        l = e['l']
        if l['k'] == 'field':
            b = self.eval(l['base'], env)
            cur = b.f[l['member']]
            if isinstance(v, tuple): v, _ = self.coerce(v, cur)
            b.f[l['member']] = v
        elif l['k'] == 'path':
            self.lookup(l['path']['segs'][-1]['id'], env).v = v
        else: raise Unsupported('assign target ' + l['k'])
        return UNIT
    def e_ref(self, e, env): return self.eval(e['e'], env)
    def e_block(self, e, env): return self.block(e, env)
    def e_return(self, e, env): raise Return(self.eval(e['e'], env) if e['e'] else UNIT)
    def e_if(self, e, env):
        c = e['cond']
        if c['k'] == 'let_cond':
            v = self.eval(c['e'], env)
            env.append({})
            try:
                if self.match(c['pat'], v, env): return self.block(e['then'], env)
            finally: env.pop()
            return self.eval(e['else'], env) if e['else'] else UNIT
        if self.branch(self.eval(c, env)): return self.block(e['then'], env)
        return self.eval(e['else'], env) if e['else'] else UNIT
    def e_match(self, e, env):
        v = self.eval(e['e'], env)
        for arm in e['arms']:
            env.append({})
            try:
                if self.match(arm['pat'], v, env): return self.eval(arm['body'], env)
            finally: env.pop()
        raise Unsupported('no arm matched')
    def e_let(self, e, env): raise Unsupported('let stmt as expr')
    def e_try(self, e, env):
        v = self.eval(e['e'], env)
        if v.variant in ('Some', 'Ok'): return v.f[0]
        raise Return(v)
    def e_tuple(self, e, env): return tuple(self.eval(x, env) for x in e['elems'])
    def e_index(self, e, env):
        b = self.eval(e['base'], env); i = self.eval(e['index'], env)
        if isinstance(i, tuple): i = i[1]
        return b[i]
    def e_macro(self, e, env):
        if e['name'] == 'format':
            fmt = e['args'][0]['v']; args = [self.eval(a, env) for a in e['args'][1:]]
            out = []; ai = 0; i = 0
            while i < len(fmt):
                if fmt.startswith('{}', i):
                    out.extend(self.display(args[ai])); ai += 1; i += 2
                else:
                    out.append(z3.IntVal(ord(fmt[i]))); i += 1
            return VStr(out)
        raise Unsupported('macro ' + e['name'])
    def display(self, v):
        if isinstance(v, VStr): return v.c
        if isinstance(v, IntU):
            k = 1 + self.choose(20, 'digits')           # number of decimal digits, forked
            ds = [self.sym('d', 'int') for _ in range(k)]
            for d in ds: self.solver.add(d >= 0, d <= 9)
            if k > 1: self.solver.add(ds[0] != 0)
            self.solver.add(v.t == sum(ds[i] * 10 ** (k - 1 - i) for i in range(k)))
            if self.check() != z3.sat: raise PathEnd()
            return [d + 48 for d in ds]
        raise Unsupported('display %r' % type(v))
    def e_call(self, e, env):
        f = e['func']
        name = f['path']['s'] if f['k'] == 'path' else None
        args = [self.eval(a, env) for a in e['args']]
        if name == 'Some': return Some(args[0])
        if name == 'Ok': return Ok(args[0])
        if name == 'Err': return Err(args[0])
        if name in self.p.fns: return self.call_fn(self.p.fns[name], args)
        raise Unsupported('call ' + str(name))
    def e_mcall(self, e, env):
        recv = self.eval(e['recv'], env)
        args = [self.eval(a, env) for a in e['args']]
        m = e['method']
        if isinstance(recv, Struct) and (recv.name, m) in self.p.methods:
            return self.call_fn(self.p.methods[(recv.name, m)], args, recv)
        fn = getattr(self, 'm_' + m, None)
        if not fn: raise Unsupported('method %s line %s' % (m, e.get('line')))
        return fn(recv, args, e)
    # --- library models
    def m_max(self, r, a, e):
        x, y = self.coerce(r, a[0]); return BV(z3.If(z3.UGE(x.t, y.t), x.t, y.t), x.bits)
    def m_saturating_add(self, r, a, e):
        x, y = self.coerce(r, a[0])
        s = x.t + y.t
        return BV(z3.If(z3.ULT(s, x.t), z3.BitVecVal(2 ** x.bits - 1, x.bits), s), x.bits)
    def m_to_string(self, r, a, e): return VStr(r.c)
    def m_len(self, r, a, e):
        if isinstance(r, list): return len(r)
        if isinstance(r, VStr): return len(r.c)
        raise Unsupported('len')
    def m_collect(self, r, a, e): return r
    def m_ok(self, r, a, e): return Some(r.f[0]) if r.variant == 'Ok' else NONE
    def m_rsplitn(self, r, a, e):
        n = a[0][1]; pat = a[1].c; s = r.c
        assert n == 2
        # search last occurrence, forking on each candidate position from the end
        for p in range(len(s) - len(pat), -1, -1):
            cond = z3.And([s[p + j] == pat[j] for j in range(len(pat))])
            if self.branch(cond):
                return [VStr(s[p + len(pat):]), VStr(s[:p])]
        return [VStr(s)]
    def m_strip_prefix(self, r, a, e):
        pat = a[0].c; s = r.c
        if len(s) < len(pat): return NONE
        if self.branch(z3.And([s[j] == pat[j] for j in range(len(pat))])): return Some(VStr(s[len(pat):]))
        return NONE
    def m_parse(self, r, a, e):
        assert 'u64' in (e.get('turbofish') or '')
        s = r.c
        if len(s) == 0: return Err('empty')
        start = 0
        if self.branch(s[0] == 43):            # leading '+'
            start = 1
            if len(s) == 1: return Err('invalid')
        for c in s[start:]:
            if not self.branch(z3.And(c >= 48, c <= 57)): return Err('invalid digit')
        k = len(s) - start
        val = sum((s[start + i] - 48) * 10 ** (k - 1 - i) for i in range(k))
        if self.branch(val <= 2 ** 64 - 1): return Ok(IntU(val))
        return Err('overflow')

# ----------------------------------------------------------------------------- drivers
def driver_c25(maxlen):
    def d(x):
        n = x.choose(maxlen + 1, 'topiclen')
        topic = VStr([x.sym('t', 'int') for _ in range(n)])
        for c in topic.c: x.solver.add(c >= 0, c < 0x110000, z3.Or(c < 0xD800, c > 0xDFFF))
        seg = IntU(x.sym('seg', 'int')); x.solver.add(seg.t >= 0, seg.t < 2 ** 64)
        key = x.call_fn(x.p.fns['wal_key'], [topic, seg])
        res = x.call_fn(x.p.fns['parse_wal_key'], [key])
        # oracle: Some((topic, seg))
        if res.variant != 'Some':
            bad = True
        else:
            t2, s2 = res.f[0]
            if len(t2.c) != n: bad = True
            else:
                eq = z3.And([a == b for a, b in zip(t2.c, topic.c)] + [s2.t == seg.t])
                bad = z3.Not(eq)
        if bad is True or x.check(bad) == z3.sat:
            m = x.solver.model() if bad is not True else None
            return ('CEX', n, m)
        return ('ok', n)
    return d

def driver_should_persist():
    def d(x):
        every = x.sym('persist_every', 'bv32'); reads = x.sym('reads', 'bv32')
        mode_is_strict = x.branch(z3.Bool('strict'))
        mode = EnumV('ReadConsistency', 'StrictlyAtOnce') if mode_is_strict else EnumV('ReadConsistency', 'AtLeastOnce', {'persist_every': every})
        force = x.branch(z3.Bool('force'))
        walrus = Struct('Walrus', {'read_consistency': mode})
        info = Struct('ColReaderInfo', {'reads_since_persist': reads})
        # invariant on pre-state: reads < max(every,1)
        e1 = z3.If(z3.UGE(every.t, 1), every.t, z3.BitVecVal(1, 32))
        x.solver.add(z3.ULT(reads.t, e1))
        r = x.call_fn(x.p.methods[('Walrus', 'should_persist')], [info, force], walrus)
        r = x.branch(r) if not isinstance(r, bool) else r
        post = info.f['reads_since_persist']
        # oracle: returns true => counter reset (AtLeastOnce); false => counter = old+1 < every
        if mode_is_strict:
            bad = (not r)
        elif r:
            bad = post.t != 0
        else:
            bad = z3.Not(z3.And(post.t == reads.t + 1, z3.ULT(post.t, e1)))
        if bad is True or (bad is not False and x.check(bad) == z3.sat):
            return ('CEX', x.solver.model() if bad is not True else None)
        return ('ok', mode.variant, force, r)
    return d

if __name__ == '__main__':
    prog = Program(sys.argv[1])
    x = Exec(prog)
    t = time.time(); res = x.explore(driver_should_persist()); print('should_persist:', res, x.stats, '%.2fs' % (time.time() - t))
    x = Exec(prog)
    t = time.time(); res = x.explore(driver_c25(int(sys.argv[2]) if len(sys.argv) > 2 else 6))
    bad = [r for r in res if r[0] == 'CEX']
    print('c25: paths', len(res), 'cex', len(bad), x.stats, '%.2fs' % (time.time() - t))
    for b in bad[:3]: print(b)
