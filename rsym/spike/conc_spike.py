#!/usr/bin/env python3
"""Spike: two model threads (baton-serialised) each running the real read_next; schedule = symbolic decisions.
Yield points: acquisitions of the per-topic ColReaderInfo lock. Lock ownership tracked for that lock."""
import sys, time, threading
import z3
sys.path.insert(0, '/tmp/spike')
import rsym2 as R
from rsym2 import *

class Abort(BaseException): pass

class Sched:
    def __init__(self, x):
        self.x = x; self.threads = []; self.cur = None; self.main_evt = threading.Event(); self.error = None; self.aborting = False
    def tracked(self, lock):
        v = lock.cell.v
        return isinstance(v, Struct) and v.name == 'ColReaderInfo'
    def runnable(self):
        return [t for t in self.threads if not t.finished and not (t.blocked_on is not None and getattr(t.blocked_on, 'owner', None) not in (None, t))]
    def pick(self, me):
        c = self.runnable()
        if not c: return None
        if len(c) == 1: return c[0]
        # symbolic schedule decision (2 threads)
        first = me if me in c else c[0]
        other = [t for t in c if t is not first][0]
        return first if self.x.branch(z3.Bool('sched_%d' % self.x.pos)) else other
    def switch_from(self, me):
        nxt = self.pick(me)
        if nxt is None:
            self.main_evt.set()
            if me is not None and not me.finished: me.wait()
            return
        if nxt is me: return
        self.cur = nxt; nxt.go.set()
        if me is not None and not me.finished: me.wait()
    def acquire(self, t, lock):
        if not self.tracked(lock): return
        self.switch_from(t)                      # yield before acquiring
        while getattr(lock, 'owner', None) not in (None, t):
            t.blocked_on = lock
            self.switch_from(t)
        t.blocked_on = None
        lock.owner = t; t.held.append(lock)
    def release(self, t, lock):
        if getattr(lock, 'owner', None) is t:
            lock.owner = None
            if lock in t.held: t.held.remove(lock)

class MThread:
    def __init__(self, sched, name, fn):
        self.s, self.name, self.fn = sched, name, fn
        self.go = threading.Event(); self.finished = False; self.blocked_on = None; self.held = []; self.result = None
        self.th = threading.Thread(target=self.run, daemon=True)
    def wait(self):
        self.go.wait(); self.go.clear()
        if self.s.aborting: raise Abort()
    def run(self):
        try:
            self.wait()
            self.result = self.fn()
        except Abort:
            self.finished = True; return
        except BaseException as e:
            self.s.error = e
        for l in list(self.held): self.s.release(self, l)
        self.finished = True
        try:
            self.s.switch_from(self)
        except BaseException as e:
            self.s.error = self.s.error or e
            self.s.main_evt.set()

CUR = threading.local()
def cur_thread(x):
    return getattr(CUR, 't', None)

_old_lock = R.m_lock
def m_lock(x, r, a, e):
    t = cur_thread(x)
    if t is not None: x.sched.acquire(t, r)
    return _old_lock(x, r, a, e)
for k in (('Lock', 'read'), ('Lock', 'write'), ('Lock', 'lock')): R.METHOD_MODELS[k] = m_lock
def f_drop(x, a, e):
    t = cur_thread(x)
    if t is not None and isinstance(a[0], Guard): x.sched.release(t, a[0].lock)
    return UNIT
R.FN_MODELS['drop'] = f_drop
# scope exit releases guards bound in that scope
_old_block = R.Exec.block
def block(self, b, env):
    depth = len(env)
    try:
        return _old_block(self, b, env)
    finally:
        pass
R.Exec.block = block
_old_loop_body = R.Exec.loop_body
def loop_body(self, body, env, label):
    # guards bound inside a loop iteration are released when the iteration ends (continue / fallthrough)
    t = cur_thread(self)
    before = list(t.held) if t else []
    try:
        return _old_loop_body(self, body, env, label)
    finally:
        if t:
            for l in list(t.held):
                if l not in before: self.sched.release(t, l)
R.Exec.loop_body = loop_body

def driver(x):
    w = R.mk_walrus(x)
    M = x.p.methods
    s = x.symbv('size'); x.solver.add(z3.ULE(s.t, 1000), z3.UGE(s.t, 1))
    r = x.deref(x.call_fn(M[('Walrus', 'append_for_topic')], [PStr('t'), R.payload(x, 0, s)], w))
    assert r.variant == 'Ok'
    sched = Sched(x); x.sched = sched
    def mk(name):
        def fn():
            CUR.t = th
            r = x.deref(x.call_fn(M[('Walrus', 'read_next')], [PStr('t'), True], w))
            o = x.deref(r.f[0]) if r.variant == 'Ok' else None
            return None if (o is None or o.variant != 'Some') else R.entry_desc(x, o.f[0])[0][1]
        th = MThread(sched, name, fn)
        return th
    a = mk('A'); b = mk('B'); sched.threads = [a, b]
    a.th.start(); b.th.start()
    try:
        sched.switch_from(None)
        sched.main_evt.wait(60)
    finally:
        if not (a.finished and b.finished):
            sched.aborting = True; a.go.set(); b.go.set()
    if sched.error: raise sched.error
    got = [a.result, b.result]
    delivered = [g for g in got if g is not None]
    if sorted(delivered) != [0]:
        return ('CEX', 'entry 0 delivered %d times: A=%r B=%r' % (len(delivered), a.result, b.result), list(x.decisions))
    return ('ok', tuple(got))

if __name__ == '__main__':
    prog = R.Program('/tmp/spike/core.jsonl')
    x = R.Exec(prog)
    t = time.time()
    try:
        res = x.explore(driver, max_paths=400)
    except R.Unsupported as u:
        print('UNSUPPORTED', u, getattr(u, 'stk', None)); sys.exit(3)
    bad = [r for r in res if r[0] == 'CEX']
    print(x.stats, 'schedules', len(res), 'cex', len(bad), '%.1fs' % (time.time() - t))
    from collections import Counter
    print(Counter(r[1] if r[0] == 'CEX' else str(r) for r in res).most_common(6))
