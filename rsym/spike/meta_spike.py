#!/usr/bin/env python3
"""Spike: interpret the real metadata.rs apply() over bounded symbolic command sequences."""
import sys, time
import z3
sys.path.insert(0, '/tmp/spike')
import rsym2 as R
from rsym2 import *

def key(x, k):
    if isinstance(k, PStr): return k.v
    if isinstance(k, tuple) and k and k[0] == 'intlit': return k[1]
    if isinstance(k, BV):
        c = x.concretize(k.t)
        if c is None: raise Unsupported('symbolic map key')
        return c
    return k
def m_get(x, r, a, e):
    k = key(x, a[0]); return Some(r.d[k]) if k in r.d else NONE
def m_insert(x, r, a, e):
    k = key(x, a[0]); old = r.d.get(k); r.d[k] = a[1]; return Some(old) if old is not None else NONE
def m_contains(x, r, a, e): return key(x, a[0]) in r.d
R.METHOD_MODELS[('VMap', 'get')] = m_get
R.METHOD_MODELS[('VMap', 'get_mut')] = m_get
R.METHOD_MODELS[('VMap', 'insert')] = m_insert
R.METHOD_MODELS[('VMap', 'contains_key')] = m_contains
R.METHOD_MODELS[('*', 'into')] = lambda x, r, a, e: r
R.FN_MODELS['Bytes::from_static'] = lambda x, a, e: PStr('<bytes>')
R.FN_MODELS['bincode::deserialize'] = lambda x, a, e: x.current_cmd

def inv(x, st, prev):
    """returns None or description of violated invariant (solver decides symbolic equalities)."""
    for name, t in st.f['topics'].d.items():
        cur = x.concretize(t.f['current_segment'].t)
        if cur is None: return 'current_segment not concrete'
        leaders = t.f['segment_leaders'].d; sealed = t.f['sealed_segments'].d
        if sorted(leaders.keys()) != list(range(1, cur + 1)): return 'leaders keys %r cur %d' % (sorted(leaders.keys()), cur)
        if sorted(sealed.keys()) != list(range(1, cur)): return 'sealed keys %r cur %d' % (sorted(sealed.keys()), cur)
        if not x.valid(x.tobv(leaders[cur]).t == x.tobv(t.f['leader_node']).t): return 'open segment leader != topic leader'
        tot = z3.BitVecVal(0, 64)
        for k, v in sealed.items(): tot = tot + x.tobv(v).t
        if not x.valid(tot == x.tobv(t.f['last_sealed_entry_offset']).t): return 'offset != sum of sealed counts'
        if prev and name in prev:
            for k, (cnt, ld) in prev[name].items():
                if not x.valid(z3.And(x.tobv(sealed[k]).t == cnt, x.tobv(leaders[k]).t == ld)): return 'sealed segment %d changed' % k
    return None
def snapshot(x, st):
    out = {}
    for name, t in st.f['topics'].d.items():
        out[name] = {k: (x.tobv(v).t, x.tobv(t.f['segment_leaders'].d[k]).t) for k, v in t.f['sealed_segments'].d.items()}
    return out

def driver(n):
    def d(x):
        st = Struct('ClusterState', {'topics': VMap(), 'nodes': VMap()})
        md = Struct('Metadata', {'state': Arc(Lock(st))})
        apply = x.p.methods[('Metadata', 'apply')]
        prev = None; log = []
        for step in range(n):
            kind = 0
            for k in range(3):
                if x.branch(z3.Bool('kind%d_%d' % (step, k))): kind = k + 1; break
            name = PStr('a') if x.branch(z3.Bool('name%d' % step)) else PStr('b')
            leader = x.symbv('leader'); x.solver.add(z3.ULE(leader.t, 3), z3.UGE(leader.t, 1))
            cnt = x.symbv('count')
            if kind == 0: cmd = Err(PStr('decode'))
            elif kind == 1: cmd = Ok(EnumV('MetadataCmd', 'CreateTopic', {'name': name, 'initial_leader': leader}))
            elif kind == 2: cmd = Ok(EnumV('MetadataCmd', 'RolloverTopic', {'name': name, 'new_leader': leader, 'sealed_segment_entry_count': cnt}))
            else: cmd = Ok(EnumV('MetadataCmd', 'UpsertNode', {'node_id': BV(bv64(1), 64), 'addr': PStr('x')}))
            x.current_cmd = cmd
            log.append((kind, name.v))
            x.call_fn(apply, [Buffer([])], md)
            v = inv(x, st, prev)
            if v: return ('CEX', v, tuple(log))
            prev = snapshot(x, st)
        return ('ok', tuple(log))
    return d

if __name__ == '__main__':
    prog = R.Program('/tmp/spike/meta.jsonl')
    x = R.Exec(prog)
    n = int(sys.argv[1])
    t = time.time()
    try:
        res = x.explore(driver(n), max_paths=20000)
    except R.Unsupported as u:
        print('UNSUPPORTED', u, getattr(u, 'stk', None)); sys.exit(3)
    bad = [r for r in res if r[0] == 'CEX']
    print('n', n, x.stats, 'results', len(res), 'cex', len(bad), '%.1fs' % (time.time() - t))
    for b in bad[:3]: print(b)
