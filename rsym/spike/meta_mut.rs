use bytes::Bytes;
use octopii::StateMachineTrait;
use serde::{Deserialize, Serialize};
use std::collections::HashMap;
use std::sync::{Arc, RwLock};

pub type NodeId = u64;
pub type TopicName = String;

#[derive(Debug, Clone, Serialize, Deserialize, Default)]
pub struct ClusterState {
    pub topics: HashMap<TopicName, TopicState>,
    /// Map node id -> advertised Raft/internal RPC address.
    #[serde(default)]
    pub nodes: HashMap<NodeId, String>,
}

#[derive(Debug, Clone, Serialize, Deserialize)]
pub struct TopicState {
    pub current_segment: u64,
    pub leader_node: NodeId,
    /// Cumulative number of entries in all sealed segments
    #[serde(default)]
    pub last_sealed_entry_offset: u64,
    /// Map segment id -> number of entries in that sealed segment
    #[serde(default)]
    pub sealed_segments: HashMap<u64, u64>,
    /// Map segment id -> leader responsible for that segment
    #[serde(default)]
    pub segment_leaders: HashMap<u64, NodeId>,
}

#[derive(Debug, Serialize, Deserialize)]
pub enum MetadataCmd {
    CreateTopic {
        name: String,
        initial_leader: NodeId,
    },
    RolloverTopic {
        name: String,
        new_leader: NodeId,
        sealed_segment_entry_count: u64,
    },
    UpsertNode {
        node_id: NodeId,
        addr: String,
    },
}

#[derive(Clone)]
pub struct Metadata {
    state: Arc<RwLock<ClusterState>>,
}

impl Metadata {
    pub fn new() -> Self {
        Self {
            state: Arc::new(RwLock::new(ClusterState::default())),
        }
    }

    pub fn get_topic_state(&self, topic: &str) -> Option<TopicState> {
        let guard = self.state.read().ok()?;
        guard.topics.get(topic).cloned()
    }

    pub fn get_node_addr(&self, node_id: NodeId) -> Option<String> {
        let guard = self.state.read().ok()?;
        guard.nodes.get(&node_id).cloned()
    }

    pub fn all_node_addrs(&self) -> Vec<(NodeId, String)> {
        match self.state.read() {
            Ok(guard) => guard
                .nodes
                .iter()
                .map(|(id, addr)| (*id, addr.clone()))
                .collect(),
            Err(_) => Vec::new(),
        }
    }

    pub fn owned_topics(&self, node_id: NodeId) -> Vec<(String, u64)> {
        let guard = match self.state.read() {
            Ok(g) => g,
            Err(_) => return Vec::new(),
        };
        let mut out = Vec::new();
        for (topic, state) in guard.topics.iter() {
            if state.leader_node == node_id {
                out.push((topic.clone(), state.current_segment));
            }
        }
        out
    }

    pub fn sealed_count(&self, topic: &str, segment: u64) -> Option<u64> {
        let guard = self.state.read().ok()?;
        guard
            .topics
            .get(topic)
            .and_then(|t| t.sealed_segments.get(&segment).copied())
    }

    pub fn segment_leader(&self, topic: &str, segment: u64) -> Option<NodeId> {
        let guard = self.state.read().ok()?;
        guard
            .topics
            .get(topic)
            .and_then(|t| t.segment_leaders.get(&segment).copied())
            .or_else(|| guard.topics.get(topic).map(|t| t.leader_node))
    }
}

impl StateMachineTrait for Metadata {
    fn apply(&self, command: &[u8]) -> Result<Bytes, String> {
        let cmd: MetadataCmd =
            bincode::deserialize(command).map_err(|e| format!("decode cmd: {e}"))?;
        let mut state = self
            .state
            .write()
            .map_err(|_| "state poisoned".to_string())?;

        match cmd {
            MetadataCmd::CreateTopic {
                name,
                initial_leader,
            } => {
                if state.topics.contains_key(&name) {
                    return Ok(Bytes::from_static(b"EXISTS"));
                }

                let mut topic = TopicState {
                    current_segment: 1,
                    leader_node: initial_leader,
                    last_sealed_entry_offset: 0,
                    sealed_segments: HashMap::new(),
                    segment_leaders: HashMap::new(),
                };
                topic.segment_leaders.insert(1, initial_leader);
                state.topics.insert(name, topic);
                Ok(Bytes::from_static(b"CREATED"))
            }
            MetadataCmd::RolloverTopic {
                name,
                new_leader,
                sealed_segment_entry_count,
            } => {
                if let Some(topic_state) = state.topics.get_mut(&name) {
                    let sealed_seg = topic_state.current_segment;
                    topic_state
                        .sealed_segments
                        .insert(sealed_seg, sealed_segment_entry_count);
                    topic_state
                        .segment_leaders
                        .insert(sealed_seg, topic_state.leader_node);
                    topic_state.last_sealed_entry_offset += sealed_segment_entry_count;
                    topic_state.current_segment += 2;
                    topic_state.leader_node = new_leader;
                    topic_state
                        .segment_leaders
                        .insert(topic_state.current_segment, new_leader);
                    return Ok(Bytes::from_static(b"ROLLED"));
                }
                Err("Topic not found".into())
            }
            MetadataCmd::UpsertNode { node_id, addr } => {
                state.nodes.insert(node_id, addr);
                Ok(Bytes::from_static(b"NODE"))
            }
        }
    }

    fn snapshot(&self) -> Vec<u8> {
        let state = self.state.read().ok();
        bincode::serialize(state.as_deref().unwrap_or(&ClusterState::default())).unwrap_or_default()
    }

    fn restore(&self, data: &[u8]) -> Result<(), String> {
        let recovered: ClusterState =
            bincode::deserialize(data).map_err(|e| format!("snapshot decode: {e}"))?;
        let mut guard = self
            .state
            .write()
            .map_err(|_| "state poisoned".to_string())?;
        *guard = recovered;
        Ok(())
    }
}
