//! Helpers for translating between logical topics and Walrus keys.

pub fn wal_key(topic: &str, segment: u64) -> String {
    format!("t_{}_s_{}", topic, segment)
}

/// Extract (topic, segment) from a wal_key such as `t_topic_s_3`.
pub fn parse_wal_key(wal_key: &str) -> Option<(String, u64)> {
    let suffix = wal_key.rsplitn(2, "_s").collect::<Vec<_>>();
    if suffix.len() != 2 {
        return None;
    }
    let topic_part = suffix[1].strip_prefix("t_")?;
    let segment = suffix[0].parse::<u64>().ok()?;
    Some((topic_part.to_string(), segment))
}

/// Per-connection read cursor for a topic.
#[derive(Default, Clone, Debug)]
pub struct ReadCursor {
    pub segment: u64,
    pub delivered_in_segment: u64,
}
