#!/usr/bin/env python3
"""Spike 2: symbolic interpretation of the real walrus engine source (append + reads), mmap path.
Re-execution forking, z3 bit-vectors, segment buffers, extent storage model."""
import json, sys, time, copy
import z3

MAXLOOP = 40
import os
SIZECAP = int(os.environ.get('SIZECAP', str(2 ** 30 + 2 ** 20)))

# ============================================================================ program
class Program:
    def __init__(self, path):
        self.fns, self.methods, self.structs, self.enums, self.consts = {}, {}, {}, {}, {}
        for line in open(path):
            doc = json.loads(line)
            self.load(doc['items'])
    def load(self, items):
        for it in items:
            k = it['k']
            if not cfg_ok(it.get('cfg')): continue
            if k == 'fn': self.fns[it['sig']['name']] = it
            elif k == 'impl':
                ty = it['self_ty'].split('<')[0]
                for m in it['items']:
                    if m['k'] == 'fn' and cfg_ok(m.get('cfg')):
                        m['_ty'] = ty; self.methods[(ty, m['sig']['name'])] = m
            elif k == 'struct': self.structs[it['name']] = it
            elif k == 'enum': self.enums[it['name']] = it
            elif k in ('const', 'static'): self.consts[it['name']] = it
            elif k == 'mod' and it.get('items') and it['name'] not in ('tests',): self.load(it['items'])

def cfg_ok(cfgs):
    for c in cfgs or []:
        c = c.replace(' ', '')
        if c in ('cfg(target_os="linux")', 'cfg(unix)'): continue
        if c.startswith('cfg(not('): return False
        if c in ('cfg(test)', 'cfg(kani)'): return False
    return True

# ============================================================================ values
class BV:
    def __init__(s, t, bits): s.t, s.bits = t, bits
    def __repr__(s): return 'BV%d(%s)' % (s.bits, z3.simplify(s.t))
class PStr:
    def __init__(s, v): s.v = v
    def __repr__(s): return 'PStr(%r)' % s.v
class Struct:
    def __init__(s, name, f): s.name, s.f = name, f
    def __repr__(s): return '%s%r' % (s.name, s.f)
class EnumV:
    def __init__(s, enum, variant, f=None): s.enum, s.variant, s.f = enum, variant, (f if f is not None else [])
    def __repr__(s): return '%s::%s%r' % (s.enum, s.variant, s.f)
class Cell:
    def __init__(s, v): s.v = v
class VVec:
    def __init__(s, items=None): s.items = items if items is not None else []
class VMap:
    def __init__(s): s.d = {}
class Lock:
    def __init__(s, v): s.cell = Cell(v)
class Guard:
    def __init__(s, lock): s.lock = lock
class Arc:
    def __init__(s, v): s.v = v
class Atomic:
    def __init__(s, v): s.v = v
class Closure:
    def __init__(s, params, body, env): s.params, s.body, s.env = params, body, env
class Unit:
    def __repr__(s): return '()'
UNIT = Unit()
class IterV:
    def __init__(s, items): s.items = list(items)
class RangeV:
    def __init__(s, a, b, closed): s.a, s.b, s.closed = a, b, closed

# ---- buffers: list of chunks
class Bytes:      # concrete-length list of byte values (python int | BV8 | ('rkyv', M, i))
    def __init__(s, b): s.b = list(b)
class Opaque:     # payload slice
    def __init__(s, uid, start, ln): s.uid, s.start, s.ln = uid, start, ln
class Zeros:
    def __init__(s, ln): s.ln = ln
class Unknown:
    def __init__(s, ln): s.ln = ln
class Buffer:
    def __init__(s, chunks=None): s.chunks = chunks if chunks is not None else []

def bv64(v): return z3.BitVecVal(v, 64)
def clen(c):
    return bv64(len(c.b)) if isinstance(c, Bytes) else c.ln

class Return(Exception):
    def __init__(s, v): s.v = v
class Break(Exception):
    def __init__(s, label, v=None): s.label, s.v = label, v
class Continue(Exception):
    def __init__(s, label): s.label = label
class PathEnd(Exception): pass
class Unsupported(Exception): pass
class Incomplete(Exception): pass
class Panic(Exception): pass

def Some(v): return EnumV('Option', 'Some', [v])
NONE = EnumV('Option', 'None')
def Ok(v): return EnumV('Result', 'Ok', [v])
def Err(v): return EnumV('Result', 'Err', [v])

INT_TYPES = {'u8': 8, 'u16': 16, 'u32': 32, 'u64': 64, 'usize': 64, 'i32': 32, 'i64': 64}

# ============================================================================ storage model
class Mmap:
    """One file. extents: list of (off BV64 term, Buffer) in write order."""
    def __init__(s, name): s.name, s.extents = name, []

# ============================================================================ executor
class Exec:
    def __init__(self, prog):
        self.p = prog
        self.solver = z3.Solver()
        self.stats = dict(paths=0, queries=0, solver_s=0.0, incomplete=0)
    # ------------------------------------------------------------------ exploration
    def explore(self, driver, max_paths=100000):
        work = [[]]; results = []
        while work and self.stats['paths'] < max_paths:
            self.decisions = work.pop(); self.pos = 0; self.new_alts = []
            self.solver.push(); self.fresh = 0; self.globals = {}; self.files = {}; self.trace = []
            try:
                results.append(driver(self))
            except PathEnd: pass
            except Incomplete as e:
                self.stats['incomplete'] += 1
            self.solver.pop()
            self.stats['paths'] += 1
            work.extend(self.new_alts)
        return results
    def check(self, *extra):
        t = time.time(); self.stats['queries'] += 1
        r = self.solver.check(*extra)
        self.stats['solver_s'] += time.time() - t
        return r
    def valid(self, cond):
        if isinstance(cond, bool): return cond
        return self.check(z3.Not(cond)) == z3.unsat
    def branch(self, cond):
        if isinstance(cond, bool): return cond
        cond = z3.simplify(cond)
        if z3.is_true(cond): return True
        if z3.is_false(cond): return False
        if self.pos < len(self.decisions):
            d = self.decisions[self.pos]; self.pos += 1
            self.solver.add(cond if d else z3.Not(cond)); return d
        can_t = self.check(cond) == z3.sat
        can_f = self.check(z3.Not(cond)) == z3.sat
        if can_t and can_f:
            self.new_alts.append(self.decisions[:self.pos] + [False])
            d = True
        elif can_t: d = True
        elif can_f: d = False
        else: raise PathEnd()
        self.decisions = self.decisions[:self.pos] + [d]; self.pos += 1
        self.solver.add(cond if d else z3.Not(cond))
        return d
    def symbv(self, name, bits=64):
        self.fresh += 1
        return BV(z3.BitVec('%s#%d' % (name, self.fresh), bits), bits)

    # ------------------------------------------------------------------ helpers
    def deref(self, v):
        while True:
            if isinstance(v, Guard): v = v.lock.cell.v
            elif isinstance(v, Arc): v = v.v
            elif isinstance(v, CellRef): v = v.d[v.k]
            else: return v
    def tobv(self, v, bits=64):
        if isinstance(v, BV): return v
        if isinstance(v, tuple) and v and v[0] == 'intlit': return BV(z3.BitVecVal(v[1], v[2] or bits), v[2] or bits)
        if isinstance(v, int) and not isinstance(v, bool): return BV(z3.BitVecVal(v, bits), bits)
        raise Unsupported('tobv %r' % (v,))
    def coerce(self, a, b):
        a = self.deref(a); b = self.deref(b)
        if isinstance(a, BV) and not isinstance(b, BV): b = self.tobv(b, a.bits)
        elif isinstance(b, BV) and not isinstance(a, BV): a = self.tobv(a, b.bits)
        elif not isinstance(a, BV) and not isinstance(b, BV) and (isinstance(a, tuple) or isinstance(b, tuple)):
            if isinstance(a, tuple) and isinstance(b, tuple) and a[0] == 'intlit' and b[0] == 'intlit':
                bits = a[2] or b[2] or 64
                a = self.tobv(a, bits); b = self.tobv(b, bits)
        if isinstance(a, BV) and isinstance(b, BV) and a.bits != b.bits:
            raise Unsupported('width mismatch %d %d' % (a.bits, b.bits))
        return a, b
    def clone(self, v):
        if isinstance(v, Guard): return self.clone(v.lock.cell.v)
        if isinstance(v, Struct): return Struct(v.name, {k: self.clone(x) for k, x in v.f.items()})
        if isinstance(v, VVec): return VVec([self.clone(x) for x in v.items])
        if isinstance(v, Buffer): return Buffer(list(v.chunks))
        if isinstance(v, EnumV): return EnumV(v.enum, v.variant, [self.clone(x) for x in v.f] if isinstance(v.f, list) else {k: self.clone(x) for k, x in v.f.items()})
        if isinstance(v, tuple) and not (v and v[0] == 'intlit'): return tuple(self.clone(x) for x in v)
        return v   # Arc, BV, PStr, bool, Mmap ... shared / immutable

    # ------------------------------------------------------------------ calls
    def call_fn(self, item, args, self_val=None):
        self.stack = getattr(self, 'stack', [])
        self.tys = getattr(self, 'tys', [])
        self.stack.append(item['sig']['name']); self.tys.append(item.get('_ty') or (self.tys[-1] if self.tys else None))
        try:
            return self.call_fn2(item, args, self_val)
        except Unsupported as u:
            if not hasattr(u, 'stk'): u.stk = list(self.stack)
            raise
        finally:
            self.stack.pop(); self.tys.pop()
    def call_fn2(self, item, args, self_val=None):
        env = [{}]
        ai = 0
        for prm in item['sig']['params']:
            if prm.get('self'): env[0]['self'] = Cell(self_val)
            else:
                a = args[ai]; ai += 1
                ty = prm.get('ty', '')
                if ty in INT_TYPES and not isinstance(a, BV): a = self.tobv(a, INT_TYPES[ty])
                self.bind(prm['pat'], a, env)
        try:
            return self.block(item['body'], env)
        except Return as r:
            return r.v
    def call_closure(self, c, args):
        env = c.env + [{}]
        for p, a in zip(c.params, args): self.bind(p, a, env)
        try:
            return self.eval(c.body, env)
        except Return as r:
            raise Unsupported('return inside closure')

    # ------------------------------------------------------------------ patterns
    def bind(self, pat, val, env):
        k = pat['k']
        if k == 'ident':
            env[-1][pat['name']] = Cell(val); return True
        if k == 'wild': return True
        if k in ('typed', 'ref'): return self.bind(pat['pat'], val, env)
        if k == 'tuple':
            val = self.deref(val)
            if not pat['elems']: return True
            for p, v in zip(pat['elems'], val): self.bind(p, v, env)
            return True
        return self.match(pat, val, env)
    def match(self, pat, val, env):
        k = pat['k']
        if k == 'ident':
            if pat['name'] == 'None' : return isinstance(val, EnumV) and val.variant == 'None'
            return self.bind(pat, val, env)
        if k in ('wild', 'typed', 'tuple', 'ref'): return self.bind(pat, val, env)
        val = self.deref(val)
        if k == 'path':
            return isinstance(val, EnumV) and val.variant == pat['path']['segs'][-1]['id']
        if k == 'tuple_struct':
            name = pat['path']['segs'][-1]['id']
            if not (isinstance(val, EnumV) and val.variant == name): return False
            for p, v in zip(pat['elems'], val.f):
                if not self.match(p, v, env): return False
            return True
        if k == 'struct':
            name = pat['path']['segs'][-1]['id']
            if isinstance(val, EnumV) and val.variant != name: return False
            for f in pat['fields']:
                if not self.match(f['pat'], val.f[f['name']], env): return False
            return True
        if k == 'lit':
            l = self.e_lit(pat['lit'], env)
            c = self.binop('==', val, l)
            return self.branch(c)
        raise Unsupported('match ' + k)

    # ------------------------------------------------------------------ blocks
    def block(self, b, env):
        env.append({})
        try:
            last = UNIT
            for st in b['stmts']:
                last = UNIT
                if not cfg_ok(st.get('cfg')): continue
                if st['k'] == 'let':
                    v = self.eval(st['init'], env) if st['init'] else None
                    if st.get('else') is not None:
                        env.append({})
                        ok = self.match(st['pat'], v, env)
                        sc = env.pop()
                        if not ok:
                            self.eval(st['else'], env); raise Unsupported('let-else fallthrough')
                        env[-1].update(sc)
                    else:
                        self.bind(st['pat'], v, env)
                elif st['k'] == 'expr':
                    if not cfg_ok(st['e'].get('cfg')): continue
                    v = self.eval(st['e'], env)
                    if not st['semi']: last = v
                elif st['k'] == 'item':
                    it = st['item']
                    if it['k'] == 'const': env[-1][it['name']] = Cell(self.eval(it['e'], env))
                    elif it['k'] == 'struct': self.p.structs[it['name']] = it
                    elif it['k'] == 'enum': self.p.enums[it['name']] = it
                    elif it['k'] == 'fn': self.p.fns[it['sig']['name']] = it
                    elif it['k'] == 'impl': pass
            return last
        finally:
            env.pop()
    def lookup(self, name, env):
        for sc in reversed(env):
            if name in sc: return sc[name]
        return None

    # ------------------------------------------------------------------ expressions
    def eval(self, e, env):
        m = getattr(self, 'e_' + e['k'], None)
        if not m: raise Unsupported('expr %s line %s' % (e['k'], e.get('line')))
        return m(e, env)
    def e_lit(self, e, env):
        t = e['t']
        if t == 'int': return ('intlit', int(e['v']), INT_TYPES.get(e['suffix'], 0))
        if t == 'bool': return e['v']
        if t == 'str': return PStr(e['v'])
        if t == 'bytestr': return Buffer([Bytes(list(e['v']))])
        if t == 'char': return ('char', e['v'])
        raise Unsupported('lit ' + t)
    def global_cell(self, name):
        if name not in self.globals:
            self.globals[name] = Cell(self.eval(self.p.consts[name]['e'], [{}]))
        return self.globals[name]
    def e_path(self, e, env):
        segs = e['path']['segs']; name = segs[-1]['id']
        if len(segs) == 1:
            c = self.lookup(name, env)
            if c is not None: return c.v
            if name == 'None': return NONE
            if name in self.p.consts:
                it = self.p.consts[name]
                if it['k'] == 'static': return self.global_cell(name).v
                v = self.eval(it['e'], [{}])
                if it['ty'] in INT_TYPES: v = self.tobv(v, INT_TYPES[it['ty']])
                return v
            if name in self.p.fns: return ('fnref', name)
        else:
            en = segs[-2]['id']
            if en in self.p.enums: return EnumV(en, name)
            if en in ('Ordering', 'io', 'ErrorKind'): return ('const', e['path']['s'])
            if e['path']['s'] in ('rkyv::Infallible',): return ('const', 'Infallible')
            if e['path']['s'] in ('usize::MAX', 'u64::MAX'): return BV(z3.BitVecVal(2 ** 64 - 1, 64), 64)
            if (en, name) in self.p.methods: return ('methodref', en, name)
        raise Unsupported('path %s line %s' % (e['path']['s'], e.get('line')))
    def binop(self, op, a, b):
        a, b = self.coerce(a, b)
        if isinstance(a, BV):
            x, y = a.t, b.t
            if op in ('<<', '>>'):
                pass
            tbl = {'+': lambda: BV(x + y, a.bits), '-': lambda: BV(x - y, a.bits), '*': lambda: BV(x * y, a.bits),
                   '/': lambda: BV(z3.UDiv(x, y), a.bits), '%': lambda: BV(z3.URem(x, y), a.bits),
                   '&': lambda: BV(x & y, a.bits), '|': lambda: BV(x | y, a.bits), '^': lambda: BV(x ^ y, a.bits),
                   '<<': lambda: BV(x << y, a.bits), '>>': lambda: BV(z3.LShR(x, y), a.bits),
                   '<': lambda: z3.ULT(x, y), '<=': lambda: z3.ULE(x, y), '>': lambda: z3.UGT(x, y), '>=': lambda: z3.UGE(x, y),
                   '==': lambda: x == y, '!=': lambda: x != y}
            return tbl[op]()
        if isinstance(a, PStr) and isinstance(b, PStr):
            return {'==': a.v == b.v, '!=': a.v != b.v}[op]
        if isinstance(a, bool) or isinstance(b, bool) or z3.is_bool(a) or z3.is_bool(b):
            if op == '==': return a == b
            if op == '!=': return a != b
        raise Unsupported('binop %s %r %r' % (op, a, b))
    def e_binary(self, e, env):
        op = e['op']
        if op == '&&':
            if not self.branch(self.eval(e['l'], env)): return False
            return self.eval(e['r'], env)
        if op == '||':
            if self.branch(self.eval(e['l'], env)): return True
            return self.eval(e['r'], env)
        if op.endswith('=') and op not in ('==', '<=', '>=', '!='):
            get, put = self.place(e['l'], env)
            r = self.eval(e['r'], env)
            cur = get()
            if isinstance(cur, BV): r = self.tobv(r, cur.bits) if not isinstance(r, BV) else r
            put(self.binop(op[:-1], cur, r)); return UNIT
        a = self.eval(e['l'], env)
        b = self.eval(e['r'], env)
        if op in ('<<', '>>'):
            a2 = self.deref(a)
            if isinstance(a2, BV): b = self.tobv(b, a2.bits) if not isinstance(b, BV) else BV(z3.ZeroExt(a2.bits - b.bits, b.t) if b.bits < a2.bits else b.t, a2.bits)
        return self.binop(op, a, b)
    def e_unary(self, e, env):
        v = self.eval(e['e'], env)
        op = e['op']
        if op == '!':
            v = self.deref(v)
            if isinstance(v, BV): return BV(~v.t, v.bits)
            return (not v) if isinstance(v, bool) else z3.Not(v)
        if op == '*':
            if isinstance(v, Guard): return v.lock.cell.v
            if isinstance(v, Cell): return v.v
            if isinstance(v, CellRef): return v.d[v.k]
            return v
        raise Unsupported('unary ' + op)
    # places
    def place(self, e, env):
        k = e['k']
        if k == 'path':
            c = self.lookup(e['path']['segs'][-1]['id'], env)
            if c is None: raise Unsupported('place path ' + e['path']['s'])
            return (lambda: c.v), (lambda v: setattr(c, 'v', v))
        if k == 'field':
            b = self.deref(self.eval(e['base'], env))
            m = e['member']
            if isinstance(b, Struct): return (lambda: b.f[m]), (lambda v: b.f.__setitem__(m, v))
            raise Unsupported('place field on %r' % type(b))
        if k == 'unary' and e['op'] == '*':
            v = self.eval(e['e'], env)
            if isinstance(v, Guard):
                c = v.lock.cell
                return (lambda: c.v), (lambda x: setattr(c, 'v', x))
            if isinstance(v, Cell): return (lambda: v.v), (lambda x: setattr(v, 'v', x))
            if isinstance(v, CellRef): return (lambda: v.d[v.k]), (lambda x: v.d.__setitem__(v.k, x))
            # reference to a local: assignment through &mut param; treat param variable itself
            return self.place(e['e'], env)
        if k == 'index':
            b = self.deref(self.eval(e['base'], env)); i = self.eval(e['index'], env)
            if isinstance(b, Buffer):
                return (lambda: self.buf_get(b, i)), (lambda v: self.buf_set(b, i, v))
            if isinstance(b, VVec):
                idx = self.concrete_index(i, len(b.items))
                return (lambda: b.items[idx]), (lambda v: b.items.__setitem__(idx, v))
        raise Unsupported('place %s line %s' % (k, e.get('line')))
    def concrete_index(self, i, n):
        if isinstance(i, int): return i
        i = self.tobv(i)
        s = z3.simplify(i.t)
        if z3.is_bv_value(s): return s.as_long()
        for k in range(n):
            if self.branch(i.t == k): return k
        raise Panic('index out of bounds')
    def e_assign(self, e, env):
        v = self.eval(e['r'], env)
        get, put = self.place(e['l'], env)
        cur = get()
        if isinstance(cur, BV) and not isinstance(v, BV): v = self.tobv(v, cur.bits)
        put(v); return UNIT
    def e_field(self, e, env):
        b = self.deref(self.eval(e['base'], env))
        m = e['member']
        if isinstance(b, Struct): return b.f[m]
        if isinstance(b, tuple): return b[int(m)]
        raise Unsupported('field %s on %r line %s' % (m, type(b), e.get('line')))
    def e_ref(self, e, env): return self.eval(e['e'], env)
    def e_block(self, e, env):
        try:
            return self.block(e, env)
        except Break as b:
            if e.get('label') and b.label == e['label']: return b.v
            raise
    def e_return(self, e, env): raise Return(self.eval(e['e'], env) if e['e'] else UNIT)
    def e_break(self, e, env): raise Break(e.get('label'), self.eval(e['e'], env) if e.get('e') else None)
    def e_continue(self, e, env): raise Continue(e.get('label'))
    def cond(self, c, env):
        """evaluate an if/while condition; returns (taken: bool) having bound pattern vars into env[-1]."""
        if c['k'] == 'let_cond':
            v = self.eval(c['e'], env)
            return self.match(c['pat'], v, env)
        if c['k'] == 'binary' and c['op'] == '&&' and (c['l']['k'] == 'let_cond' or c['r']['k'] == 'let_cond'):
            return self.cond(c['l'], env) and self.cond(c['r'], env)
        return self.branch(self.eval(c, env))
    def e_if(self, e, env):
        env.append({})
        try:
            taken = self.cond(e['cond'], env)
            if taken: return self.block(e['then'], env)
        finally:
            env.pop()
        return self.eval(e['else'], env) if e['else'] else UNIT
    def e_match(self, e, env):
        v = self.eval(e['e'], env)
        for arm in e['arms']:
            env.append({})
            try:
                if self.match(arm['pat'], v, env):
                    if arm['guard'] is None or self.branch(self.eval(arm['guard'], env)):
                        return self.eval(arm['body'], env)
            finally: env.pop()
        raise Unsupported('no arm matched line %s: %r' % (e.get('line'), v))
    def loop_body(self, body, env, label):
        try:
            self.block(body, env); return True
        except Continue as c:
            if c.label in (None, label): return True
            raise
    def e_while(self, e, env):
        n = 0
        try:
            while True:
                env.append({})
                try:
                    if not self.cond(e['cond'], env): break
                    n += 1
                    if n > MAXLOOP: raise Incomplete('while line %s' % e.get('line'))
                    self.loop_body(e['body'], env, e.get('label'))
                finally: env.pop()
        except Break as b:
            if b.label not in (None, e.get('label')): raise
        return UNIT
    def e_loop(self, e, env):
        n = 0
        try:
            while True:
                n += 1
                if n > MAXLOOP: raise Incomplete('loop line %s' % e.get('line'))
                self.loop_body(e['body'], env, e.get('label'))
        except Break as b:
            if b.label not in (None, e.get('label')): raise
            return b.v if b.v is not None else UNIT
    def to_iter(self, v):
        v = self.deref(v)
        if isinstance(v, IterV): return v.items
        if isinstance(v, VVec): return list(v.items)
        if isinstance(v, VMap): return [(PStr(k) if isinstance(k, str) else k, val) for k, val in v.d.items()]
        if isinstance(v, VSet): return [PStr(k) for k in v.items]
        if isinstance(v, RangeV):
            a = self.concrete_index(v.a, 1 << 62); b = self.concrete_index(v.b, 1 << 62)
            return [BV(z3.BitVecVal(i, 64), 64) for i in range(a, b + (1 if v.closed else 0))]
        raise Unsupported('iterate %r' % type(v))
    def e_for(self, e, env):
        try:
            for item in self.to_iter(self.eval(e['iter'], env)):
                env.append({})
                try:
                    self.bind(e['pat'], item, env)
                    self.loop_body(e['body'], env, e.get('label'))
                finally: env.pop()
        except Break as b:
            if b.label not in (None, e.get('label')): raise
        return UNIT
    def e_try(self, e, env):
        v = self.deref(self.eval(e['e'], env))
        if v.variant in ('Some', 'Ok'): return v.f[0]
        raise Return(v)
    def e_tuple(self, e, env):
        if not e['elems']: return UNIT
        return tuple(self.eval(x, env) for x in e['elems'])
    def e_array(self, e, env): return VVec([self.eval(x, env) for x in e['elems']])
    def e_repeat(self, e, env):
        v = self.eval(e['e'], env); n = self.eval(e['len'], env)
        n = self.concrete_index(n, 1 << 20)
        if isinstance(v, tuple) and v[0] == 'intlit': return Buffer([Bytes([v[1]] * n)])
        raise Unsupported('repeat')
    def e_range(self, e, env):
        return RangeV(self.eval(e['start'], env) if e['start'] else None, self.eval(e['end'], env) if e['end'] else None, e['closed'])
    def e_cast(self, e, env):
        v = self.deref(self.eval(e['e'], env)); ty = e['ty']
        if ty in INT_TYPES:
            bits = INT_TYPES[ty]
            if isinstance(v, tuple) and v[0] == 'intlit': return BV(z3.BitVecVal(v[1], bits), bits)
            if isinstance(v, int): return BV(z3.BitVecVal(v, bits), bits)
            if isinstance(v, BV):
                if v.bits == bits: return v
                if v.bits < bits: return BV(z3.ZeroExt(bits - v.bits, v.t), bits)
                return BV(z3.Extract(bits - 1, 0, v.t), bits)
        raise Unsupported('cast to %s of %r' % (ty, v))
    def e_struct(self, e, env):
        name = e['path']['segs'][-1]['id']
        fields = {f['name']: self.eval(f['e'], env) for f in e['fields']}
        if len(e['path']['segs']) > 1 and e['path']['segs'][-2]['id'] in self.p.enums:
            return EnumV(e['path']['segs'][-2]['id'], name, fields)
        st = self.p.structs.get(name)
        if st:
            for fd in st['fields']:
                if fd['ty'] in INT_TYPES and fd['name'] in fields and not isinstance(fields[fd['name']], BV):
                    fields[fd['name']] = self.tobv(fields[fd['name']], INT_TYPES[fd['ty']])
        return Struct(name, fields)
    def e_closure(self, e, env): return Closure(e['params'], e['body'], list(env))
    def e_index(self, e, env):
        b = self.deref(self.eval(e['base'], env)); i = self.eval(e['index'], env)
        if isinstance(b, Buffer):
            if isinstance(i, RangeV): return self.buf_slice(b, i)
            return self.buf_get(b, i)
        if isinstance(b, VVec):
            if isinstance(i, RangeV):
                a = self.concrete_index(i.a, 1 << 30) if i.a is not None else 0
                z = self.concrete_index(i.b, 1 << 30) + (1 if i.closed else 0) if i.b is not None else len(b.items)
                return VVec(b.items[a:z])
            idx = self.concrete_index(i, len(b.items))
            if idx >= len(b.items): raise Panic('index out of bounds')
            return b.items[idx]
        raise Unsupported('index on %r line %s' % (type(b), e.get('line')))
    def e_macro(self, e, env):
        n = e['name']
        if n in ('debug_print', 'info', 'tracing::info'): return UNIT
        if n == 'format': return PStr('<fmt>')
        if n == 'vec':
            raw = e['raw']
            if ';' in raw: return self.vec_repeat(raw, env, e)
            return VVec([self.eval(a, env) for a in (e['args'] or [])])
        if n == 'matches':
            v = self.deref(self.eval(e['args'][0], env))
            def pm(p):
                if p['k'] == 'path': return isinstance(v, EnumV) and v.variant == p['path']['segs'][-1]['id']
                if p['k'] == 'binary' and p['op'] == '|': return pm(p['l']) or pm(p['r'])
                raise Unsupported('matches! pattern')
            return pm(e['args'][1])
        if n in ('debug_assert', 'assert'): return UNIT
        raise Unsupported('macro %s line %s' % (n, e.get('line')))
    def vec_repeat(self, raw, env, e):
        # raw like "0u8 ; size" or "Vec :: new () ; plan . len ()" -- evaluate tiny expressions by hand
        elem, cnt = [x.strip() for x in raw.split(';', 1)]
        cnt_v = self.eval_src(cnt, env)
        if elem.replace(' ', '') in ('0u8', '0'):
            c = self.tobv(cnt_v)
            s = z3.simplify(c.t)
            if z3.is_bv_value(s) and s.as_long() <= 4096: return Buffer([Bytes([0] * s.as_long())])
            return Buffer([Zeros(c.t)])
        n = self.concrete_index(cnt_v, 1 << 20)
        if elem.replace(' ', '') == 'Vec::new()': return VVec([Buffer([]) for _ in range(n)])
        if elem.replace(' ', '') == '0': return VVec([BV(bv64(0), 64) for _ in range(n)])
        raise Unsupported('vec! %s' % raw)
    def eval_src(self, src, env):
        """evaluate a tiny expression given as token text: identifiers, field/method chains without args."""
        toks = src.replace(' ', '')
        if toks.isdigit(): return int(toks)
        import re
        m = re.fullmatch(r'([A-Za-z_][A-Za-z_0-9]*)((?:\.[A-Za-z_][A-Za-z_0-9]*(?:\(\))?)*)', toks)
        if not m: raise Unsupported('eval_src ' + src)
        c = self.lookup(m.group(1), env)
        if c is None:
            v = self.e_path({'path': {'segs': [{'id': m.group(1)}], 's': m.group(1)}}, env)
        else: v = c.v
        for part in [p for p in m.group(2).split('.') if p]:
            if part.endswith('()'):
                v = self.method(v, part[:-2], [], {'line': 0, 'turbofish': None}, env)
            else:
                v = self.deref(v).f[part]
        return v
    def e_call(self, e, env):
        f = e['func']
        args = [self.eval(a, env) for a in e['args']]
        if f['k'] == 'path':
            s = f['path']['s']; segs = f['path']['segs']; last = segs[-1]['id']
            if s == 'Some': return Some(args[0])
            if s == 'Ok': return Ok(args[0])
            if s == 'Err': return Err(args[0])
            if len(segs) == 1:
                c = self.lookup(last, env)
                if c is not None and isinstance(c.v, Closure): return self.call_closure(c.v, args)
                if last in FN_MODELS: return FN_MODELS[last](self, args, e)
                if last in self.p.fns: return self.call_fn(self.p.fns[last], args)
            else:
                ty = segs[-2]['id']
                if ty == 'Self':
                    ty = self.tys[-1]
                key = ty + '::' + last
                if s in FN_MODELS: return FN_MODELS[s](self, args, e)
                if key in FN_MODELS: return FN_MODELS[key](self, args, e)
                if (ty, last) in self.p.methods:
                    m = self.p.methods[(ty, last)]
                    if m['sig']['params'] and m['sig']['params'][0].get('self'):
                        return self.call_fn(m, args[1:], self.deref(args[0]))
                    return self.call_fn(m, args)
                if ty in self.p.enums: return EnumV(ty, last, args)
            raise Unsupported('call %s line %s' % (s, e.get('line')))
        fv = self.eval(f, env)
        if isinstance(fv, Closure): return self.call_closure(fv, args)
        raise Unsupported('call expr')
    def e_mcall(self, e, env):
        if e['method'] == 'copy_from_slice':
            src = self.deref(self.eval(e['args'][0], env))
            r = e['recv']
            if r['k'] == 'index':
                b = self.deref(self.eval(r['base'], env)); rng = self.eval(r['index'], env)
                a = self.concrete_index(rng.a, 1 << 20) if rng.a is not None else 0
                flat = []
                for c in src.chunks:
                    if not isinstance(c, Bytes): raise Unsupported('copy_from_slice of non-bytes into subslice')
                    flat.extend(c.b)
                if len(b.chunks) == 1 and isinstance(b.chunks[0], Bytes):
                    b.chunks[0].b[a:a + len(flat)] = flat
                    return UNIT
                raise Unsupported('copy_from_slice target shape')
            b = self.deref(self.eval(r, env))
            b.chunks = list(src.chunks)
            return UNIT
        if e['method'] == 'take' and e['recv']['k'] in ('path', 'field'):
            get, put = self.place(e['recv'], env)
            v = get(); put(NONE); return v
        recv = self.eval(e['recv'], env)
        args = [self.eval(a, env) for a in e['args']]
        return self.method(recv, e['method'], args, e, env)
    def method(self, recv, m, args, e, env):
        # crate's own methods first
        base = self.deref(recv)
        if isinstance(base, Struct) and base.name.endswith('Model'): return UNIT
        if isinstance(base, Struct) and (base.name, m) in OVERRIDES: return OVERRIDES[(base.name, m)](self, base, args, e)
        if isinstance(base, Struct) and (base.name, m) in self.p.methods and (type(recv).__name__, m) not in PRIORITY_MODELS:
            return self.call_fn(self.p.methods[(base.name, m)], args, base)
        for v in (recv, base):
            fn = METHOD_MODELS.get((type(v).__name__, m))
            if fn: return fn(self, v, args, e)
        fn = METHOD_MODELS.get(('*', m))
        if fn: return fn(self, recv, args, e)
        raise Unsupported('method %s on %s line %s' % (m, type(base).__name__ + (':' + base.name if isinstance(base, Struct) else ''), e.get('line')))

    # ------------------------------------------------------------------ buffers
    def concretize(self, term):
        t = z3.simplify(term)
        if z3.is_bv_value(t): return t.as_long()
        if self.check() != z3.sat: raise PathEnd()
        v = self.solver.model().eval(t, model_completion=True)
        if self.valid(t == v): return v.as_long()
        return None
    def buf_len(self, b):
        t = bv64(0)
        for c in b.chunks: t = t + clen(c)
        return BV(z3.simplify(t), 64)
    def locate(self, b, pos):
        """find (chunk index, concrete delta or None) for byte position pos (BV). Forks if needed."""
        pos = self.tobv(pos).t
        start = bv64(0)
        for i, c in enumerate(b.chunks):
            ln = clen(c)
            d = z3.simplify(pos - start)
            if isinstance(c, Bytes) and z3.is_bv_value(d) and d.as_long() < len(c.b):
                return i, d.as_long()
            if isinstance(c, Bytes):
                dc = self.concretize(pos - start)
                if dc is not None and dc < len(c.b): return i, dc
            if self.valid(pos == start): return i, 0
            inside = z3.And(z3.UGE(pos, start), z3.ULT(pos - start, ln))
            if self.check(inside) == z3.sat:
                if self.branch(pos == start): return i, 0
                if self.branch(inside):
                    if isinstance(c, Bytes):
                        for k in range(1, len(c.b)):
                            if self.branch(pos - start == k): return i, k
                    return i, None
            start = z3.simplify(start + ln)
        return len(b.chunks), 0
    def buf_get(self, b, i):
        ci, d = self.locate(b, i)
        if ci >= len(b.chunks): raise Panic('buffer index out of range')
        c = b.chunks[ci]
        if isinstance(c, Bytes) and d is not None:
            v = c.b[d]
            if isinstance(v, int): return BV(z3.BitVecVal(v, 8), 8)
            if isinstance(v, BV): return v
            return self.symbv('opaque_byte', 8)
        if isinstance(c, Zeros): return BV(z3.BitVecVal(0, 8), 8)
        return self.symbv('byte', 8)
    def buf_set(self, b, i, v):
        ci, d = self.locate(b, i)
        c = b.chunks[ci]
        if isinstance(c, Bytes) and d is not None:
            v = self.tobv(v, 8)
            s = z3.simplify(v.t)
            c.b[d] = s.as_long() if z3.is_bv_value(s) else v
            return
        raise Unsupported('buf_set into non-bytes chunk')
    def buf_slice(self, b, r):
        total = self.buf_len(b)
        a = self.tobv(r.a).t if r.a is not None else bv64(0)
        z = self.tobv(r.b).t if r.b is not None else total.t
        if r.closed: z = z + 1
        if self.check(z3.Or(z3.UGT(a, z), z3.UGT(z, total.t))) == z3.sat:
            if self.branch(z3.Or(z3.UGT(a, z), z3.UGT(z, total.t))): raise Panic('slice out of range')
        out = []
        start = bv64(0)
        for c in b.chunks:
            ln = clen(c); end = z3.simplify(start + ln)
            # relation of [start,end) to [a,z)
            if self.valid(z3.Or(z3.ULE(end, a), z3.UGE(start, z))) and not self.valid(ln == 0):
                start = end; continue
            if self.valid(z3.And(z3.UGE(start, a), z3.ULE(end, z))):
                out.append(c); start = end; continue
            # partial overlap
            lo = z3.simplify(z3.If(z3.UGT(a, start), a - start, bv64(0)))
            hi = z3.simplify(z3.If(z3.ULT(z, end), z - start, ln))
            if isinstance(c, Bytes):
                lo_c = self.concretize(lo); hi_c = self.concretize(hi)
                if lo_c is not None and hi_c is not None: out.append(Bytes(c.b[lo_c:hi_c]))
                else:
                    # fork on whether chunk is fully inside / outside first
                    if self.branch(z3.Or(z3.ULE(end, a), z3.UGE(start, z))): start = end; continue
                    if self.branch(z3.And(z3.UGE(start, a), z3.ULE(end, z))): out.append(c); start = end; continue
                    out.append(Unknown(z3.simplify(hi - lo)))
            elif isinstance(c, Opaque):
                if self.branch(z3.Or(z3.ULE(end, a), z3.UGE(start, z))): start = end; continue
                out.append(Opaque(c.uid, z3.simplify(c.start + lo), z3.simplify(hi - lo)))
            elif isinstance(c, Zeros): out.append(Zeros(z3.simplify(hi - lo)))
            else: out.append(Unknown(z3.simplify(hi - lo)))
            start = end
        return Buffer(out)

    # ------------------------------------------------------------------ storage
    def mmap_write(self, mm, off, buf):
        pos = self.tobv(off).t
        for c in self.deref(buf).chunks:
            mm.extents.append((z3.simplify(pos), c))
            pos = pos + clen(c)
        self.trace.append(('write', mm.name))
    def mmap_read(self, mm, off, dest):
        pos = self.tobv(off).t
        remaining = self.buf_len(dest).t
        out = []
        guard = 0
        while True:
            guard += 1
            if guard > 200: raise Incomplete('mmap_read')
            if self.valid(remaining == 0): break
            found = None
            for eoff, c in reversed(mm.extents):
                if self.valid(clen(c) == 0): continue
                if self.valid(eoff == pos): found = c; break
                if self.check(eoff == pos) == z3.sat:
                    if self.branch(eoff == pos): found = c; break
            if found is None:
                inside = False
                for eoff, c in mm.extents:
                    cond = z3.And(z3.UGT(pos, eoff), z3.ULT(pos - eoff, clen(c)))
                    if self.check(cond) == z3.sat:
                        if self.branch(cond): inside = True; break
                out.append(Unknown(remaining) if inside else Zeros(remaining))
                break
            ln = clen(found)
            if self.branch(z3.ULE(ln, remaining)):
                out.append(found); remaining = z3.simplify(remaining - ln); pos = z3.simplify(pos + ln)
            else:
                if isinstance(found, Opaque): out.append(Opaque(found.uid, found.start, remaining))
                elif isinstance(found, Zeros): out.append(Zeros(remaining))
                elif isinstance(found, Bytes):
                    r = z3.simplify(remaining)
                    out.append(Bytes(found.b[:r.as_long()]) if z3.is_bv_value(r) else Unknown(remaining))
                else: out.append(Unknown(remaining))
                break
        dest.chunks = out

# ============================================================================ library models
def m_lock(x, r, a, e): return Ok(Guard(r))
def m_map_err(x, r, a, e):
    r = x.deref(r)
    if r.variant == 'Ok': return r
    return Err(x.call_closure(a[0], [r.f[0]]))
def m_ok(x, r, a, e):
    r = x.deref(r); return Some(r.f[0]) if r.variant == 'Ok' else NONE
def m_is_some(x, r, a, e): return x.deref(r).variant == 'Some'
def m_is_none(x, r, a, e): return x.deref(r).variant == 'None'
def m_is_err(x, r, a, e): return x.deref(r).variant == 'Err'
def m_is_ok(x, r, a, e): return x.deref(r).variant == 'Ok'
def m_unwrap(x, r, a, e):
    r = x.deref(r)
    if r.variant in ('Some', 'Ok'): return r.f[0]
    raise Panic('unwrap on %s line %s' % (r.variant, e.get('line')))
def m_unwrap_or(x, r, a, e):
    r = x.deref(r); return r.f[0] if r.variant in ('Some', 'Ok') else a[0]
def m_take(x, r, a, e): raise Unsupported('take needs place')
def m_as_ref(x, r, a, e): return r
def m_cloned(x, r, a, e):
    r = x.deref(r); return Some(x.clone(r.f[0])) if r.variant == 'Some' else r
def m_clone(x, r, a, e): return x.clone(r)
def m_map_get(x, r, a, e):
    k = a[0]; k = k.v if isinstance(k, PStr) else k
    return Some(r.d[k]) if k in r.d else NONE
def m_map_insert(x, r, a, e):
    k = a[0]; k = k.v if isinstance(k, PStr) else k
    old = r.d.get(k); r.d[k] = a[1]; return Some(old) if old is not None else NONE
class EntryV:
    def __init__(s, m, k): s.m, s.k = m, k
def m_map_entry(x, r, a, e):
    k = a[0]; k = k.v if isinstance(k, PStr) else k
    return EntryV(r, k)
def m_or_insert_with(x, r, a, e):
    if r.k not in r.m.d: r.m.d[r.k] = x.call_closure(a[0], [])
    return r.m.d[r.k]
def m_or_insert(x, r, a, e):
    if r.k not in r.m.d: r.m.d[r.k] = a[0]
    return CellRef(r.m.d, r.k)
class CellRef:
    def __init__(s, d, k): s.d, s.k = d, k
def m_to_string(x, r, a, e): return r
def m_len(x, r, a, e):
    r = x.deref(r)
    if isinstance(r, VVec): return BV(bv64(len(r.items)), 64)
    if isinstance(r, Buffer): return x.buf_len(r)
    if isinstance(r, PStr): return BV(bv64(len(r.v)), 64)
    raise Unsupported('len of %r' % type(r))
def m_is_empty(x, r, a, e):
    r = x.deref(r)
    if isinstance(r, VVec): return len(r.items) == 0
    if isinstance(r, Buffer): return x.buf_len(r).t == 0
    raise Unsupported('is_empty of %r' % type(r))
def m_push(x, r, a, e): x.deref(r).items.append(a[0]); return UNIT
def m_iter(x, r, a, e):
    b = x.deref(r)
    if isinstance(b, Buffer): return m_buf_iter(x, b, a, e)
    if isinstance(b, VMap): return m_map_iter(x, b, a, e)
    return IterV(x.to_iter(r))
def m_enumerate(x, r, a, e): return IterV([(BV(bv64(i), 64), v) for i, v in enumerate(r.items)])
def m_find(x, r, a, e):
    for it in r.items:
        if x.branch(x.call_closure(a[0], [it])): return Some(it)
    return NONE
def m_opt_map(x, r, a, e):
    if isinstance(r, IterV): return IterV([x.call_closure(a[0], [it]) for it in r.items])
    r = x.deref(r)
    if r.variant in ('Some',): return Some(x.call_closure(a[0], [r.f[0]]))
    if r.variant == 'Ok': return Ok(x.call_closure(a[0], [r.f[0]]))
    return r
def m_collect(x, r, a, e): return VVec(list(r.items))
def m_sum(x, r, a, e):
    t = BV(bv64(0), 64)
    for it in r.items: t = x.binop('+', t, it)
    return t
def m_min(x, r, a, e):
    p, q = x.coerce(r, a[0]); return BV(z3.If(z3.ULE(p.t, q.t), p.t, q.t), p.bits)
def m_max(x, r, a, e):
    p, q = x.coerce(r, a[0]); return BV(z3.If(z3.UGE(p.t, q.t), p.t, q.t), p.bits)
def m_saturating_add(x, r, a, e):
    p, q = x.coerce(r, a[0]); s = p.t + q.t
    return BV(z3.If(z3.ULT(s, p.t), z3.BitVecVal(2 ** p.bits - 1, p.bits), s), p.bits)
def m_saturating_sub(x, r, a, e):
    p, q = x.coerce(r, a[0]); return BV(z3.If(z3.ULT(p.t, q.t), z3.BitVecVal(0, p.bits), p.t - q.t), p.bits)
def m_checked_add(x, r, a, e):
    p, q = x.coerce(r, a[0]); s = p.t + q.t
    if x.branch(z3.ULT(s, p.t)): return NONE
    return Some(BV(s, p.bits))
def m_atomic_load(x, r, a, e): return r.v
def m_atomic_store(x, r, a, e): r.v = a[0]; return UNIT
def m_cas(x, r, a, e):
    if r.v == a[0]: r.v = a[1]; return Ok(a[0])
    return Err(r.v)
def m_send(x, r, a, e): return Ok(UNIT)
def m_extend_from_slice(x, r, a, e):
    r = x.deref(r); r.chunks.extend(x.deref(a[0]).chunks); return UNIT
def m_copy_from_slice(x, r, a, e): raise Unsupported('copy_from_slice needs place')
def m_to_vec(x, r, a, e): return Buffer(list(x.deref(r).chunks))
def m_clear(x, r, a, e):
    r = x.deref(r)
    if isinstance(r, Buffer): r.chunks = []
    else: r.items = []
    return UNIT
def m_mmap_write(x, r, a, e): x.mmap_write(r, a[0], a[1]); return UNIT
def m_mmap_read(x, r, a, e): x.mmap_read(r, a[0], x.deref(a[1])); return UNIT
def m_mmap_flush(x, r, a, e): return Ok(UNIT)
def m_deserialize(x, r, a, e): return Ok(r)
def m_get_unsafecell(x, r, a, e): return r.cell
def m_expect(x, r, a, e): return m_unwrap(x, r, a, e)
def m_and_then(x, r, a, e):
    r = x.deref(r)
    if r.variant == 'Some': return x.call_closure(a[0], [r.f[0]])
    return r
def m_copied(x, r, a, e): return r

def o_create_new_file(x, r, a, e):
    name = 'f%d' % len(x.files)
    x.files[name] = Mmap(name)
    return Ok(PStr(name))
def o_index_persist(x, r, a, e):
    x.trace.append(('index_persist',)); return Ok(UNIT)
OVERRIDES = {('WalPathManager', 'create_new_file'): o_create_new_file, ('WalIndex', 'persist'): o_index_persist}
def f_get_mmap_arc(x, a, e):
    name = x.deref(a[0]).v
    if name not in x.files: x.files[name] = Mmap(name)
    return Ok(Arc(x.files[name]))

def m_iter_all(x, r, a, e):
    vals = [x.call_closure(a[0], [it]) for it in r.items]
    if all(isinstance(v, bool) for v in vals): return all(vals)
    return z3.And([v if not isinstance(v, bool) else z3.BoolVal(v) for v in vals])
def m_position(x, r, a, e):
    for i, it in enumerate(r.items):
        if x.branch(x.call_closure(a[0], [it])): return Some(BV(bv64(i), 64))
    return NONE
def m_take_n(x, r, a, e):
    n = x.concrete_index(a[0], len(r.items) + 1)
    return IterV(r.items[:n])
def m_vec_get(x, r, a, e):
    r = x.deref(r)
    i = x.tobv(a[0]).t
    for k in range(len(r.items)):
        if x.branch(i == k): return Some(r.items[k])
    return NONE
def m_or_default(x, r, a, e):
    if r.k not in r.m.d: r.m.d[r.k] = VVec([])
    return r.m.d[r.k]
def m_set_insert(x, r, a, e):
    k = a[0].v if isinstance(a[0], PStr) else a[0]
    if k in r.items: return False
    r.items.append(k); return True
def m_sort(x, r, a, e):
    r = x.deref(r); r.items.sort(key=lambda p: p.v); return UNIT
def m_map_iter(x, r, a, e): return IterV([(PStr(k) if isinstance(k, str) else k, v) for k, v in r.d.items()])
def m_pstr_ends_with(x, r, a, e): return r.v.endswith(a[0].v)
def m_pstr_is_empty(x, r, a, e): return len(r.v) == 0
def m_buf_iter(x, r, a, e):
    out = []
    for c in r.chunks:
        if isinstance(c, Bytes):
            for b in c.b: out.append(BV(z3.BitVecVal(b, 8), 8) if isinstance(b, int) else (b if isinstance(b, BV) else x.symbv('tok', 8)))
        elif isinstance(c, Zeros):
            n = x.concretize(c.ln)
            if n is None or n > 64: raise Unsupported('iterate long zeros')
            out.extend(BV(z3.BitVecVal(0, 8), 8) for _ in range(n))
        else:
            n = x.concretize(clen(c))
            if n is None or n > 64: raise Unsupported('iterate opaque')
            out.extend(x.symbv('ob', 8) for _ in range(n))
    return IterV(out)

METHOD_MODELS = {
    ('Lock', 'read'): m_lock, ('Lock', 'write'): m_lock, ('Lock', 'lock'): m_lock,
    ('*', 'map_err'): m_map_err, ('*', 'ok'): m_ok, ('*', 'is_some'): m_is_some, ('*', 'is_none'): m_is_none,
    ('*', 'is_err'): m_is_err, ('*', 'is_ok'): m_is_ok, ('*', 'unwrap'): m_unwrap, ('*', 'unwrap_or'): m_unwrap_or,
    ('*', 'expect'): m_expect, ('*', 'as_ref'): m_as_ref, ('*', 'cloned'): m_cloned, ('*', 'clone'): m_clone, ('*', 'copied'): m_copied,
    ('VMap', 'get'): m_map_get, ('VMap', 'insert'): m_map_insert, ('VMap', 'entry'): m_map_entry,
    ('EntryV', 'or_insert_with'): m_or_insert_with, ('EntryV', 'or_insert'): m_or_insert,
    ('*', 'to_string'): m_to_string, ('*', 'len'): m_len, ('*', 'is_empty'): m_is_empty,
    ('*', 'push'): m_push, ('*', 'iter'): m_iter, ('IterV', 'enumerate'): m_enumerate, ('IterV', 'find'): m_find,
    ('*', 'map'): m_opt_map, ('IterV', 'collect'): m_collect, ('IterV', 'sum'): m_sum,
    ('*', 'min'): m_min, ('*', 'max'): m_max, ('*', 'saturating_add'): m_saturating_add, ('*', 'saturating_sub'): m_saturating_sub,
    ('*', 'checked_add'): m_checked_add, ('*', 'and_then'): m_and_then,
    ('Atomic', 'load'): m_atomic_load, ('Atomic', 'store'): m_atomic_store, ('Atomic', 'compare_exchange'): m_cas, ('Atomic', 'compare_exchange_weak'): m_cas,
    ('Chan', 'send'): m_send,
    ('IterV', 'all'): m_iter_all, ('IterV', 'position'): m_position, ('IterV', 'take'): m_take_n, ('IterV', 'copied'): (lambda x, r, a, e: r),
    ('IterV', 'into_iter'): (lambda x, r, a, e: r),
    ('VVec', 'get'): m_vec_get, ('EntryV', 'or_default'): m_or_default, ('VSet', 'insert'): m_set_insert,
    ('VSet', 'into_iter'): (lambda x, r, a, e: IterV([PStr(k) for k in r.items])),
    ('VVec', 'sort'): m_sort, ('VMap', 'iter'): m_map_iter,
    ('PStr', 'ends_with'): m_pstr_ends_with, ('PStr', 'is_empty'): m_pstr_is_empty, ('PStr', 'to_str'): (lambda x, r, a, e: Some(r)),
    ('DirEnt', 'path'): (lambda x, r, a, e: PStr(r.name)), ('DirEnt', 'file_type'): (lambda x, r, a, e: Ok(FileTypeV())),
    ('FileTypeV', 'is_dir'): (lambda x, r, a, e: False),
    ('Buffer', 'iter'): m_buf_iter,
    ('*', 'extend_from_slice'): m_extend_from_slice, ('*', 'to_vec'): m_to_vec, ('*', 'clear'): m_clear,
    ('Mmap', 'write'): m_mmap_write, ('Mmap', 'read'): m_mmap_read, ('Mmap', 'flush'): m_mmap_flush,
    ('Struct', 'deserialize'): m_deserialize,
    ('UnsafeCellV', 'get'): m_get_unsafecell,
}
PRIORITY_MODELS = set()

class Chan: pass
class DirEnt:
    def __init__(s, name): s.name = name
class FileTypeV: pass
class VSet:
    def __init__(s): s.items = []

class UnsafeCellV:
    def __init__(s, v): s.cell = Cell(v)

def f_noop(x, a, e): return UNIT
def f_arc_new(x, a, e): return Arc(a[0])
def f_lock_new(x, a, e): return Lock(a[0])
def f_vec_new(x, a, e): return VVec([])
def f_map_new(x, a, e): return VMap()
def f_atomic_new(x, a, e): return Atomic(a[0])
def f_ioerr(x, a, e): return Struct('IoError', {'kind': a[0]})
def f_drop(x, a, e): return UNIT
def f_checksum(x, a, e):
    b = x.deref(a[0])
    key = tuple((type(c).__name__, getattr(c, 'uid', None), str(z3.simplify(getattr(c, 'start', bv64(0)))), str(z3.simplify(clen(c)))) for c in b.chunks)
    return BV(z3.BitVec('ck_%s' % (abs(hash(key)) % (10**12)), 64), 64)
def f_to_bytes(x, a, e):
    m = x.deref(a[0])
    n = 32 if len(m.f['owned_by'].v) <= 8 else 32 + ((len(m.f['owned_by'].v) + 7) // 8) * 8
    return Ok(Buffer([Bytes([('rkyv', m, i) for i in range(n)])]))
def f_aligned_with_capacity(x, a, e): return Buffer([])
def f_archived_root(x, a, e):
    b = x.deref(a[0])
    toks = [t for c in b.chunks if isinstance(c, Bytes) for t in c.b]
    if toks and all(isinstance(t, tuple) and t[0] == 'rkyv' and t[1] is toks[0][1] and t[2] == i for i, t in enumerate(toks)) and len(b.chunks) == 1:
        return toks[0][1]
    raise Incomplete('archived_root on non-header bytes: chunks=%r toks=%r line %s' % ([type(c).__name__ for c in b.chunks], [ (t if not isinstance(t, tuple) else (t[0], t[2])) for t in toks[:6]], e.get('line')))
def f_vec_with_capacity(x, a, e): return Buffer([])
def f_block_state_noop(x, a, e): return UNIT

FN_MODELS = {
    'Arc::new': f_arc_new, 'RwLock::new': f_lock_new, 'Mutex::new': f_lock_new, 'Vec::new': f_vec_new, 'HashMap::new': f_map_new,
    'AtomicBool::new': f_atomic_new, 'io::Error::new': f_ioerr, 'std::io::Error::new': f_ioerr, 'drop': f_drop,
    'checksum64': f_checksum, 'rkyv::to_bytes::<_,256>': f_to_bytes, 'AlignedVec::with_capacity': f_aligned_with_capacity,
    'rkyv::AlignedVec::with_capacity': f_aligned_with_capacity, 'rkyv::archived_root::<Metadata>': f_archived_root,
    'Vec::with_capacity': f_vec_with_capacity,
    'BlockStateTracker::set_checkpointed_true': f_block_state_noop, 'FileStateTracker::set_block_unlocked': f_block_state_noop,
    'BlockStateTracker::register_block': f_noop, 'FileStateTracker::register_file_if_absent': f_noop,
    'FileStateTracker::add_block_to_file_state': f_noop, 'FileStateTracker::set_block_locked': f_noop,
    'FileStateTracker::set_fully_allocated': f_noop, 'std::hint::spin_loop': f_noop,
    'SharedMmapKeeper::get_mmap_arc': f_get_mmap_arc,
    'fs::read_dir': (lambda x, a, e: Ok(IterV([Ok(DirEnt(n)) for n in x.files.keys()]))),
    'HashSet::new': (lambda x, a, e: VSet()), 'flush_check': f_noop,
    'u64::from_be_bytes': (lambda x, a, e: x.symbv('be')),
}

# ============================================================================ driver: stream
def mk_walrus(x, consistency='StrictlyAtOnce', index=None):
    x.globals['USE_FD_BACKEND'] = Cell(Atomic(False))
    name = 'f%d' % len(x.files)
    mm = Mmap(name); x.files[name] = mm
    first = Struct('Block', {'id': BV(bv64(1), 64), 'offset': BV(bv64(0), 64), 'limit': BV(bv64(10 * 1024 * 1024), 64),
                             'used': BV(bv64(0), 64), 'file_path': PStr(name), 'mmap': Arc(mm)})
    paths = Struct('WalPathManager', {'root': PStr('d')})
    alloc = Struct('BlockAllocator', {'next_block': UnsafeCellV(first), 'paths': Arc(paths), 'lock': Atomic(False)})
    reader = Struct('Reader', {'data': Lock(VMap())})
    if index is None: index = Struct('WalIndex', {'store': VMap(), 'path': PStr('idx')})
    mode = EnumV('ReadConsistency', consistency)
    w = Struct('Walrus', {'allocator': Arc(alloc), 'reader': Arc(reader), 'fsync_tx': Arc(Chan()),
                          'read_offset_index': Arc(Lock(index)), 'paths': Arc(paths), 'topic_clean_tracker': Arc(Struct('TopicCleanTrackerModel', {})),
                          'writers': Lock(VMap()), 'topic_entry_counts': Lock(VMap()), 'read_consistency': mode,
                          'fsync_schedule': EnumV('FsyncSchedule', 'NoFsync')})
    return w

def reopen(x, w):
    index = x.deref(x.deref(w).f['read_offset_index']).cell.v
    w2 = mk_walrus(x, index=index)
    r = x.deref(x.call_fn(x.p.methods[('Walrus', 'startup_chore')], [], w2))
    if r.variant != 'Ok': raise Unsupported('startup_chore returned Err')
    return w2

def payload(x, uid, size): return Buffer([Opaque(uid, bv64(0), size.t)])

def entry_desc(x, ent):
    b = x.deref(x.deref(ent).f['data'])
    return [(type(c).__name__, getattr(c, 'uid', None), z3.simplify(getattr(c, 'start', bv64(0))), z3.simplify(clen(c))) for c in b.chunks]

def driver_stream(skel):
    """skel: list of 'a' (append), 'n' (read_next), 'b' (batch read, symbolic budget), 'B' (batch read usize::MAX)"""
    def d(x):
        w = mk_walrus(x)
        M = x.p.methods
        sizes = []; budgets = []; delivered = 0; appended = 0
        for op in skel:
            if op == 'a':
                s = x.symbv('size%d' % appended); x.solver.add(z3.ULE(s.t, SIZECAP)); sizes.append(s)
                r = x.call_fn(M[('Walrus', 'append_for_topic')], [PStr('t'), payload(x, appended, s)], w)
                if x.deref(r).variant != 'Ok': return ('append_err', appended)
                appended += 1
                continue
            if op == 'R':
                w = reopen(x, w); continue
            if op == 'c':
                c = x.deref(x.call_fn(M[('Walrus', 'get_topic_entry_count')], [PStr('t')], w))
                exp = appended - delivered
                cv = x.tobv(c).t
                if x.check(cv != exp) == z3.sat:
                    mdl = x.solver.model()
                    return ('CEX', 'count', 'delivered_before=%d' % delivered, 'got=count %s expected %d' % (mdl.eval(cv), exp),
                            {'sizes': [mdl.eval(s.t, model_completion=True).as_long() for s in sizes], 'budgets': []})
                continue
            if op in ('b', 'B'):
                b = x.symbv('budget') if op == 'b' else BV(bv64(2 ** 64 - 1), 64); budgets.append(b)
                r = x.deref(x.call_fn(M[('Walrus', 'batch_read_for_topic')], [PStr('t'), b, True, NONE], w))
                if r.variant != 'Ok': return ('read_err',)
                ents = r.f[0].items
            else:
                r = x.deref(x.call_fn(M[('Walrus', 'read_next')], [PStr('t'), True], w))
                if r.variant != 'Ok': return ('read_err',)
                o = x.deref(r.f[0]); ents = [o.f[0]] if o.variant == 'Some' else []
            got = []
            for en in ents:
                ds = entry_desc(x, en)
                got.append(ds[0][1] if ds else None)
            ok = (got == list(range(delivered, delivered + len(got)))) and (len(got) > 0 or delivered >= appended)
            if not ok:
                m = None
                if x.check() == z3.sat:
                    mdl = x.solver.model()
                    m = {'sizes': [mdl.eval(s.t, model_completion=True).as_long() for s in sizes],
                         'budgets': [mdl.eval(b.t, model_completion=True).as_long() for b in budgets]}
                return ('CEX', op, 'delivered_before=%d' % delivered, 'got=%r' % got, m)
            delivered += len(got)
        return ('ok', delivered)
    return d

if __name__ == '__main__':
    prog = Program(sys.argv[1])
    skel = sys.argv[2].split(',')
    x = Exec(prog)
    t = time.time()
    try:
        res = x.explore(driver_stream(skel), max_paths=int(sys.argv[3]) if len(sys.argv) > 3 else 2000)
    except Unsupported as u:
        print('UNSUPPORTED:', u, 'stack', getattr(u, 'stk', None)); sys.exit(3)
    bad = [r for r in res if r[0] == 'CEX']
    print('paths', x.stats, 'results', len(res), 'cex', len(bad), '%.1fs' % (time.time() - t))
    from collections import Counter
    print(Counter(r[0] for r in res))
    sig = Counter((b[2], b[3], 'budget0' if b[4] and b[4]['budgets'] and b[4]['budgets'][0] == 0 else '', 'hasEmpty' if b[4] and 0 in b[4]['sizes'] else '') for b in bad)
    for k, v in sig.most_common(20): print(v, k)
    for b in bad[:4]: print(b)
