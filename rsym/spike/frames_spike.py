#!/usr/bin/env python3
"""Spike: interpret the real client.rs handle_connection against a symbolic byte stream (framing property only)."""
import sys, time
import z3
sys.path.insert(0, '/tmp/spike')
import rsym2 as R
from rsym2 import *

class Sock:
    def __init__(s, data): s.data, s.pos, s.prefix_reads, s.responses, s.closed = data, 0, [], 0, False
class IoErr:
    def __init__(s, kind): s.kind = kind

def m_read_exact(x, sock, a, e):
    buf = x.deref(a[0])
    n_t = x.buf_len(buf).t
    remaining = len(sock.data) - sock.pos
    n = x.concretize(n_t)
    if n is None:
        # fork over feasible concrete lengths up to remaining, else EOF
        n = None
        for k in range(0, remaining + 1):
            if x.branch(n_t == k): n = k; break
        if n is None:
            sock.pos = len(sock.data)
            return Err(IoErr('UnexpectedEof'))
    if n > remaining:
        sock.pos = len(sock.data)
        return Err(IoErr('UnexpectedEof'))
    if n == 4 and len(buf.chunks) == 1 and isinstance(buf.chunks[0], Bytes) and len(buf.chunks[0].b) == 4:
        sock.prefix_reads.append(sock.pos)
    buf.chunks = [Bytes(sock.data[sock.pos:sock.pos + n])]
    sock.pos += n
    return Ok(UNIT)
def m_await(x, v): return v

R.METHOD_MODELS[('Sock', 'read_exact')] = m_read_exact
R.METHOD_MODELS[('IoErr', 'kind')] = lambda x, r, a, e: ('const', 'std::io::ErrorKind::' + r.kind)
R.METHOD_MODELS[('IoErr', 'into')] = lambda x, r, a, e: r
R.METHOD_MODELS[('*', 'trim_end')] = lambda x, r, a, e: r
def f_from_le(x, a, e):
    b = x.deref(a[0]).chunks[0].b
    t = z3.Concat(*[x.tobv(v, 8).t for v in reversed(b)])
    return BV(t, 32)
R.FN_MODELS['u32::from_le_bytes'] = f_from_le
def f_from_utf8(x, a, e):
    ok = x.branch(z3.Bool('utf8_ok_%d' % x.pos))
    return Ok(PStr('<text>')) if ok else Err(UNIT)
R.FN_MODELS['String::from_utf8'] = f_from_utf8
def f_send_response(x, a, e):
    sock = x.deref(a[0]); sock.responses += 1
    return Ok(UNIT)
def f_handle_command(x, a, e):
    ok = x.branch(z3.Bool('cmd_ok_%d' % x.pos))
    return Ok(PStr('OK')) if ok else Err(PStr('err'))
R.FN_MODELS['send_response'] = f_send_response
R.FN_MODELS['handle_command'] = f_handle_command

# e_await, const compare
def e_await(self, e, env): return self.eval(e['e'], env)
R.Exec.e_await = e_await
_old_binop = R.Exec.binop
def binop(self, op, a, b):
    if isinstance(a, tuple) and isinstance(b, tuple) and a and b and a[0] == 'const' and b[0] == 'const':
        return (a[1].split('::')[-1] == b[1].split('::')[-1]) if op == '==' else (a[1].split('::')[-1] != b[1].split('::')[-1])
    return _old_binop(self, op, a, b)
R.Exec.binop = binop

def driver(N):
    def d(x):
        data = [x.symbv('b', 8) for _ in range(N)]
        sock = Sock(data)
        f = x.p.fns['handle_connection']
        try:
            r = x.call_fn(f, [sock, Struct('ControllerModel', {})])
        except R.Incomplete:
            raise
        # client framing: boundaries
        bounds = []
        p = 0
        cond_ok = True
        # compute client boundaries symbolically: for each server prefix read position, it must equal a client boundary
        # client boundary sequence: p0 = 0, p_{i+1} = p_i + 4 + le32(data[p_i..p_i+4])
        # since server positions are concrete ints on this path, check each against the client sequence with the solver
        viol = None
        client = [0]
        while True:
            p = client[-1]
            if p + 4 > N: break
            ln = z3.Concat(*[data[p + 3 - i].t for i in range(4)])
            nxt = None
            # next boundary must be concrete on this path for the comparison; ask solver
            cand = x.concretize(z3.ZeroExt(32, ln) + p + 4)
            if cand is None or cand > N: break
            client.append(cand)
        for sp in sock.prefix_reads:
            if sp not in client:
                viol = sp; break
        if viol is not None:
            mdl = None
            if x.check() == z3.sat:
                m = x.solver.model(); mdl = [m.eval(b.t, model_completion=True).as_long() for b in data]
            return ('CEX', 'server read a length prefix at %d, client boundaries %r, responses %d' % (viol, client, sock.responses), mdl)
        return ('ok', tuple(sock.prefix_reads), sock.responses)
    return d

if __name__ == '__main__':
    prog = R.Program('/tmp/spike/client.jsonl')
    x = R.Exec(prog)
    N = int(sys.argv[1])
    t = time.time()
    try:
        res = x.explore(driver(N), max_paths=5000)
    except R.Unsupported as u:
        print('UNSUPPORTED', u, getattr(u, 'stk', None)); sys.exit(3)
    bad = [r for r in res if r[0] == 'CEX']
    print('N', N, x.stats, 'results', len(res), 'cex', len(bad), '%.1fs' % (time.time() - t))
    for b in bad[:3]: print(b)
