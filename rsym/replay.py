"""Native replay of scripts through the real engine (replay gate and differential validation)."""
import json
import os
import shutil
import subprocess
import tempfile

from .runner import BUILD, VERIF, sh

REPLAYER = os.path.join(BUILD, 'replayer', 'release', 'replayer')
_built = {}


def build(cfg_flags=''):
    """(re)build the replayer against /repo's current working tree; cfg_flags e.g. '--cfg walrus_verif'"""
    key = cfg_flags
    if key in _built:
        return _built[key]
    tdir = os.path.join(BUILD, 'replayer' + ('_hooks' if cfg_flags else ''))
    env = dict(os.environ, CARGO_NET_OFFLINE='true', CARGO_TARGET_DIR=tdir)
    if cfg_flags:
        env['RUSTFLAGS'] = cfg_flags
    r = sh('cargo build --release --offline', cwd=os.path.join(VERIF, 'native', 'replayer'), env=env)
    if r.returncode != 0:
        _built[key] = (None, r.stderr[-3000:])
    else:
        _built[key] = (os.path.join(tdir, 'release', 'replayer'), None)
    return _built[key]


def run_script(script, timeout=600, cfg_flags='', keep_dir=False):
    """returns (observations list, error string|None). Each restart_process op starts a fresh process."""
    binp, err = build(cfg_flags)
    if not binp:
        return None, 'replayer build failed: ' + err
    d = tempfile.mkdtemp(prefix='walrus-verif.')
    try:
        sp = os.path.join(d, 'script.json')
        with open(sp, 'w') as f:
            json.dump(script, f)
        data = os.path.join(d, 'data')
        os.makedirs(data)
        obs = []
        start = 0
        n = len(script['ops'])
        while start < n:
            try:
                r = subprocess.run([binp, sp, data, str(start)], capture_output=True, text=True, timeout=timeout,
                                   env=dict(os.environ, WALRUS_QUIET='1'))
            except subprocess.TimeoutExpired:
                obs.append({'i': start, 'timeout': True})
                return obs, None
            lines = [json.loads(l) for l in r.stdout.splitlines() if l.startswith('{')]
            stopped = None
            for o in lines:
                if o.get('stop'):
                    stopped = o['i']
                    break
                obs.append(o)
            if r.returncode != 0 and stopped is None:
                ci = (obs[-1]['i'] + 1) if obs else start
                if ci < n and script['ops'][ci].get('abort_at_event'):
                    # the crash was requested by the script: carry on with the next process
                    obs.append({'i': ci, 'aborted': True, 'op': script['ops'][ci]['op']})
                    nxt = next((j for j in range(ci + 1, n) if script['ops'][j]['op'] == 'restart_process'), None)
                    if nxt is None:
                        return obs, None
                    start = nxt
                    continue
                obs.append({'i': ci, 'crash': True, 'returncode': r.returncode, 'stderr': r.stderr[-400:]})
                return obs, None
            if stopped is None:
                break
            start = stopped
        return obs, None
    finally:
        if not keep_dir:
            shutil.rmtree(d, ignore_errors=True)
