"""Shared set-up for drivers that interpret the core engine (src/wal/**)."""
import z3

from . import envmodel
from .core import Exec, Program
from .values import *  # noqa: F401,F403

CORE_FILES = [
    'src/wal/config.rs', 'src/wal/paths.rs', 'src/wal/block.rs', 'src/wal/storage.rs',
    'src/wal/runtime/mod.rs', 'src/wal/runtime/allocator.rs', 'src/wal/runtime/background.rs',
    'src/wal/runtime/builder.rs', 'src/wal/runtime/index.rs', 'src/wal/runtime/reader.rs',
    'src/wal/runtime/topic_clean.rs', 'src/wal/runtime/walrus.rs', 'src/wal/runtime/walrus_read.rs',
    'src/wal/runtime/walrus_write.rs', 'src/wal/runtime/writer.rs',
]
SIZECAP = 2 ** 30 - 256      # largest payload the engine accepts (MAX_ALLOC - header); larger ones are C04's subject
ROOT = '/d/ns'


def mk_exec(docs, cfg):
    x = Exec(Program(docs), query_timeout_ms=cfg.get('qt', 20000), seed=cfg.get('seed', 0))
    envmodel.install(x, cfg.get('rkyv_table'))
    x.maxloop = cfg.get('maxloop', 128)
    x.eager_div = cfg.get('eager_div', 0)

    # type-directed defaults the dynamically typed interpreter cannot infer
    def vec_hint(e):
        return Buffer([])
    x.vec_hint = vec_hint

    def collect_hint(e, items):
        if items and all(isinstance(i, Buffer) for i in items):
            return VVec(items)
        return None
    x.collect_hint = collect_hint
    return x


def new_world(x, fd_backend=True):
    envmodel.reset_world(x)
    x.fs.dirs.add('/d')
    x.backend_fd = fd_backend


def set_backend(x):
    x.call(None, 'enable_fd_backend' if x.backend_fd else 'disable_fd_backend', [])


def mode_value(x, consistency, persist_every=None):
    if consistency == 'StrictlyAtOnce':
        return EnumV('ReadConsistency', 'StrictlyAtOnce')
    pe = persist_every if persist_every is not None else BV(z3.BitVecVal(1, 32), 32)
    return EnumV('ReadConsistency', 'AtLeastOnce', {'persist_every': pe})


def schedule_value(x, name, ms=1):
    if name == 'Milliseconds':
        return EnumV('FsyncSchedule', 'Milliseconds', [BV(bv64(ms), 64)])
    return EnumV('FsyncSchedule', name)


def open_walrus(x, consistency='StrictlyAtOnce', persist_every=None, schedule='NoFsync', root=ROOT):
    """Walrus::with_paths interpreted from source on the model file system.
    The very first open of a path (empty world, no symbolic input involved) is interpreted once per worker and
    its resulting world is deep-copied for the following paths."""
    import copy
    fresh = not x.fs.files and not x.globals and not x.io_log
    pe_key = None if persist_every is None else str(z3.simplify(persist_every.t))
    key = (x.backend_fd, consistency, pe_key, schedule, root, tuple(sorted(x.fs.dirs)), x.clock)
    cache = x.__dict__.setdefault('_open_cache', {})
    if fresh and key in cache:
        snap = copy.deepcopy(cache[key])
        x.fs, x.globals, x.threads, x.io_log, x.clock, x.fs_deleted = snap['fs'], snap['globals'], snap['threads'], snap['io_log'], snap['clock'], snap['fs_deleted']
        return snap['result']
    r = _open_walrus(x, consistency, persist_every, schedule, root)
    if fresh and not x.new_alts and x.qpos == 0 and x.pos == 0:
        cache[key] = copy.deepcopy(dict(fs=x.fs, globals=x.globals, threads=x.threads, io_log=x.io_log, clock=x.clock, fs_deleted=x.fs_deleted, result=r))
    return r


def _open_walrus(x, consistency, persist_every, schedule, root):
    set_backend(x)
    paths = Arc(Struct('WalPathManager', {'root': PStr(root)}))
    r = x.deref(x.call('Walrus', 'with_paths', [paths, mode_value(x, consistency, persist_every), schedule_value(x, schedule)]))
    return r


def payload(uid, size_term):
    return Buffer([Opaque(uid, bv64(0), size_term)])


def entry_chunks(x, ent):
    return list(x.deref(x.deref(ent).f['data']).chunks)


def entry_is(x, ent, uid, size_term, start=None):
    """formula: the returned entry is byte-identical to payload uid (suffix from `start` for offset reads)"""
    st = bv64(0) if start is None else start
    exp = [Opaque(uid, st, z3.simplify(size_term - st))]
    return envmodel.chunks_equal(x, entry_chunks(x, ent), exp)


def describe_entry(x, ent):
    out = []
    for c in entry_chunks(x, ent):
        if isinstance(c, Opaque):
            out.append('payload(uid=%d,start=%s,len=%s)' % (c.uid, z3.simplify(c.start), z3.simplify(c.ln)))
        else:
            out.append('%s(len=%s)' % (type(c).__name__, z3.simplify(clen(c))))
    return '+'.join(out) or 'empty'


def api(x, w, name, args):
    """call a public Walrus method; a panic is an observation"""
    try:
        return x.deref(x.call('Walrus', name, args, w))
    except Panic as p:
        x.stats['panics'] += 1
        return EnumV('Outcome', 'Panic', [str(p)])


def errkind(x, r):
    e = x.deref(r.f[0])
    if isinstance(e, Struct) and e.name == 'IoError':
        k = x.deref(e.f['kind'])
        return k.last() if isinstance(k, ConstV) else str(k)
    return 'Err'


def drop_value(x, v, seen=None):
    """model of dropping an owned value: Arc reference counts, Drop impls from the source, recursively"""
    seen = seen if seen is not None else set()
    if id(v) in seen:
        return
    seen.add(id(v))
    if isinstance(v, Arc):
        v.strong -= 1
        if v.strong <= 0:
            drop_value(x, v.v, seen)
        return
    if isinstance(v, Lock):
        drop_value(x, v.cell.v, seen)
        return
    if isinstance(v, Struct):
        m = x.p.methods.get((v.name, 'drop'))
        if m is not None and m.get('_trait') == 'Drop':
            try:
                x.call_fn(m, [], v)
            except Panic:
                pass
        for f in list(v.f.values()):
            drop_value(x, f, seen)
        return
    if isinstance(v, VMap):
        for f in list(v.d.values()):
            drop_value(x, f, seen)
    elif isinstance(v, VVec):
        for f in v.items:
            drop_value(x, f, seen)
