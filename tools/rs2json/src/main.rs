// rs2json: dump a Rust source file as a JSON AST (subset sufficient for rsym).
use quote::ToTokens;
use serde_json::{json, Value};
use syn::spanned::Spanned;

fn ts<T: ToTokens>(t: &T) -> String {
    t.to_token_stream().to_string()
}
fn line<T: Spanned>(t: &T) -> usize {
    t.span().start().line
}
fn end_line<T: Spanned>(t: &T) -> usize {
    t.span().end().line
}
fn cfgs(attrs: &[syn::Attribute]) -> Value {
    let v: Vec<Value> = attrs
        .iter()
        .filter(|a| a.path().is_ident("cfg"))
        .map(|a| Value::String(ts(&a.meta)))
        .collect();
    Value::Array(v)
}
fn path_json(p: &syn::Path) -> Value {
    let segs: Vec<Value> = p
        .segments
        .iter()
        .map(|s| {
            let args = match &s.arguments {
                syn::PathArguments::None => Value::Null,
                a => Value::String(ts(a)),
            };
            json!({"id": s.ident.to_string(), "args": args})
        })
        .collect();
    json!({"segs": segs, "s": ts(p).replace(' ', "")})
}
fn lit(l: &syn::Lit) -> Value {
    match l {
        syn::Lit::Int(i) => json!({"k":"lit","t":"int","v": i.base10_digits(), "suffix": i.suffix()}),
        syn::Lit::Str(s) => json!({"k":"lit","t":"str","v": s.value()}),
        syn::Lit::ByteStr(s) => json!({"k":"lit","t":"bytestr","v": s.value()}),
        syn::Lit::Char(c) => json!({"k":"lit","t":"char","v": c.value() as u32}),
        syn::Lit::Byte(b) => json!({"k":"lit","t":"byte","v": b.value()}),
        syn::Lit::Bool(b) => json!({"k":"lit","t":"bool","v": b.value}),
        syn::Lit::Float(f) => json!({"k":"lit","t":"float","v": f.base10_digits()}),
        other => json!({"k":"lit","t":"other","v": ts(other)}),
    }
}
fn pat(p: &syn::Pat) -> Value {
    match p {
        syn::Pat::Ident(i) => json!({"k":"ident","name": i.ident.to_string(), "by_ref": i.by_ref.is_some(), "mut": i.mutability.is_some(), "sub": i.subpat.as_ref().map(|(_, s)| pat(s))}),
        syn::Pat::Wild(_) => json!({"k":"wild"}),
        syn::Pat::Tuple(t) => json!({"k":"tuple","elems": t.elems.iter().map(pat).collect::<Vec<_>>()}),
        syn::Pat::TupleStruct(t) => json!({"k":"tuple_struct","path": path_json(&t.path), "elems": t.elems.iter().map(pat).collect::<Vec<_>>()}),
        syn::Pat::Struct(s) => json!({"k":"struct","path": path_json(&s.path), "rest": s.rest.is_some(),
            "fields": s.fields.iter().map(|f| json!({"name": ts(&f.member), "pat": pat(&f.pat)})).collect::<Vec<_>>()}),
        syn::Pat::Path(p) => json!({"k":"path","path": path_json(&p.path)}),
        syn::Pat::Lit(l) => json!({"k":"lit","lit": lit(&l.lit)}),
        syn::Pat::Reference(r) => json!({"k":"ref","pat": pat(&r.pat)}),
        syn::Pat::Or(o) => json!({"k":"or","cases": o.cases.iter().map(pat).collect::<Vec<_>>()}),
        syn::Pat::Type(t) => json!({"k":"typed","pat": pat(&t.pat), "ty": ts(&t.ty)}),
        syn::Pat::Range(r) => json!({"k":"range","s": ts(r)}),
        syn::Pat::Paren(p) => pat(&p.pat),
        other => json!({"k":"other","s": ts(other)}),
    }
}
fn block(b: &syn::Block) -> Value {
    json!({"k":"block","line": line(b), "stmts": b.stmts.iter().map(stmt).collect::<Vec<_>>()})
}
fn mac(m: &syn::Macro, ln: usize) -> Value {
    let name = ts(&m.path).replace(' ', "");
    let args: Value = match m.parse_body_with(syn::punctuated::Punctuated::<syn::Expr, syn::Token![,]>::parse_terminated) {
        Ok(a) => Value::Array(a.iter().map(expr).collect()),
        Err(_) => Value::Null,
    };
    json!({"k":"macro","line": ln, "name": name, "args": args, "raw": m.tokens.to_string()})
}
fn stmt(s: &syn::Stmt) -> Value {
    match s {
        syn::Stmt::Local(l) => json!({"k":"let","line": line(l), "cfg": cfgs(&l.attrs), "pat": pat(&l.pat),
            "init": l.init.as_ref().map(|i| expr(&i.expr)),
            "else": l.init.as_ref().and_then(|i| i.diverge.as_ref().map(|(_, e)| expr(e)))}),
        syn::Stmt::Item(i) => json!({"k":"item","item": item(i)}),
        syn::Stmt::Expr(e, semi) => json!({"k":"expr","semi": semi.is_some(), "e": expr(e)}),
        syn::Stmt::Macro(m) => json!({"k":"expr","semi": m.semi_token.is_some(), "cfg": cfgs(&m.attrs), "e": mac(&m.mac, line(m))}),
    }
}
fn expr_attrs(e: &syn::Expr) -> Value {
    let attrs: &[syn::Attribute] = match e {
        syn::Expr::Block(x) => &x.attrs, syn::Expr::If(x) => &x.attrs, syn::Expr::Call(x) => &x.attrs,
        syn::Expr::MethodCall(x) => &x.attrs, syn::Expr::Match(x) => &x.attrs, syn::Expr::ForLoop(x) => &x.attrs,
        syn::Expr::While(x) => &x.attrs, syn::Expr::Loop(x) => &x.attrs, syn::Expr::Assign(x) => &x.attrs,
        _ => &[],
    };
    cfgs(attrs)
}
fn expr(e: &syn::Expr) -> Value {
    let ln = line(e);
    let mut v = match e {
        syn::Expr::Lit(l) => lit(&l.lit),
        syn::Expr::Path(p) => json!({"k":"path","path": path_json(&p.path)}),
        syn::Expr::Binary(b) => json!({"k":"binary","op": ts(&b.op), "l": expr(&b.left), "r": expr(&b.right)}),
        syn::Expr::Unary(u) => json!({"k":"unary","op": ts(&u.op), "e": expr(&u.expr)}),
        syn::Expr::Paren(p) => expr(&p.expr),
        syn::Expr::Group(p) => expr(&p.expr),
        syn::Expr::Field(f) => json!({"k":"field","base": expr(&f.base), "member": ts(&f.member)}),
        syn::Expr::Index(i) => json!({"k":"index","base": expr(&i.expr), "index": expr(&i.index)}),
        syn::Expr::Range(r) => json!({"k":"range","start": r.start.as_ref().map(|x| expr(x)), "end": r.end.as_ref().map(|x| expr(x)), "closed": matches!(r.limits, syn::RangeLimits::Closed(_))}),
        syn::Expr::Call(c) => json!({"k":"call","func": expr(&c.func), "args": c.args.iter().map(expr).collect::<Vec<_>>()}),
        syn::Expr::MethodCall(m) => json!({"k":"mcall","recv": expr(&m.receiver), "method": m.method.to_string(),
            "turbofish": m.turbofish.as_ref().map(|t| ts(t)), "args": m.args.iter().map(expr).collect::<Vec<_>>()}),
        syn::Expr::Macro(m) => mac(&m.mac, ln),
        syn::Expr::Block(b) => { let mut x = block(&b.block); x["label"] = json!(b.label.as_ref().map(|l| l.name.ident.to_string())); x }
        syn::Expr::Unsafe(u) => block(&u.block),
        syn::Expr::If(i) => json!({"k":"if","cond": expr(&i.cond), "then": block(&i.then_branch), "else": i.else_branch.as_ref().map(|(_, e)| expr(e))}),
        syn::Expr::Let(l) => json!({"k":"let_cond","pat": pat(&l.pat), "e": expr(&l.expr)}),
        syn::Expr::Match(m) => json!({"k":"match","e": expr(&m.expr), "arms": m.arms.iter().map(|a| json!({"pat": pat(&a.pat), "guard": a.guard.as_ref().map(|(_, g)| expr(g)), "body": expr(&a.body)})).collect::<Vec<_>>()}),
        syn::Expr::While(w) => json!({"k":"while","label": w.label.as_ref().map(|l| l.name.ident.to_string()), "cond": expr(&w.cond), "body": block(&w.body)}),
        syn::Expr::Loop(l) => json!({"k":"loop","label": l.label.as_ref().map(|l| l.name.ident.to_string()), "body": block(&l.body)}),
        syn::Expr::ForLoop(f) => json!({"k":"for","label": f.label.as_ref().map(|l| l.name.ident.to_string()), "pat": pat(&f.pat), "iter": expr(&f.expr), "body": block(&f.body)}),
        syn::Expr::Break(b) => json!({"k":"break","label": b.label.as_ref().map(|l| l.ident.to_string()), "e": b.expr.as_ref().map(|x| expr(x))}),
        syn::Expr::Continue(c) => json!({"k":"continue","label": c.label.as_ref().map(|l| l.ident.to_string())}),
        syn::Expr::Return(r) => json!({"k":"return","e": r.expr.as_ref().map(|x| expr(x))}),
        syn::Expr::Try(t) => json!({"k":"try","e": expr(&t.expr)}),
        syn::Expr::Await(a) => json!({"k":"await","e": expr(&a.base)}),
        syn::Expr::Assign(a) => json!({"k":"assign","l": expr(&a.left), "r": expr(&a.right)}),
        syn::Expr::Cast(c) => json!({"k":"cast","e": expr(&c.expr), "ty": ts(&c.ty).replace(' ', "")}),
        syn::Expr::Reference(r) => json!({"k":"ref","mut": r.mutability.is_some(), "e": expr(&r.expr)}),
        syn::Expr::Tuple(t) => json!({"k":"tuple","elems": t.elems.iter().map(expr).collect::<Vec<_>>()}),
        syn::Expr::Array(a) => json!({"k":"array","elems": a.elems.iter().map(expr).collect::<Vec<_>>()}),
        syn::Expr::Repeat(r) => json!({"k":"repeat","e": expr(&r.expr), "len": expr(&r.len)}),
        syn::Expr::Struct(s) => json!({"k":"struct","path": path_json(&s.path), "rest": s.rest.as_ref().map(|x| expr(x)),
            "fields": s.fields.iter().map(|f| json!({"name": ts(&f.member), "e": expr(&f.expr)})).collect::<Vec<_>>()}),
        syn::Expr::Closure(c) => json!({"k":"closure","move": c.capture.is_some(), "params": c.inputs.iter().map(pat).collect::<Vec<_>>(), "body": expr(&c.body)}),
        syn::Expr::Async(a) => block(&a.block),
        other => json!({"k":"other","s": ts(other)}),
    };
    if v.get("line").is_none() { v["line"] = json!(ln); }
    let c = expr_attrs(e);
    if c.as_array().map(|a| !a.is_empty()).unwrap_or(false) { v["cfg"] = c; }
    v
}
fn sig(s: &syn::Signature) -> Value {
    let params: Vec<Value> = s.inputs.iter().map(|a| match a {
        syn::FnArg::Receiver(r) => json!({"self": true, "ref": r.reference.is_some(), "mut": r.mutability.is_some()}),
        syn::FnArg::Typed(t) => json!({"pat": pat(&t.pat), "ty": ts(&t.ty).replace(' ', "")}),
    }).collect();
    json!({"name": s.ident.to_string(), "async": s.asyncness.is_some(), "unsafe": s.unsafety.is_some(), "params": params,
        "ret": match &s.output { syn::ReturnType::Default => Value::Null, syn::ReturnType::Type(_, t) => Value::String(ts(t).replace(' ', "")) }})
}
fn fields(f: &syn::Fields) -> Value {
    Value::Array(f.iter().enumerate().map(|(i, x)| json!({"name": x.ident.as_ref().map(|i| i.to_string()).unwrap_or(i.to_string()), "ty": ts(&x.ty).replace(' ', "")})).collect())
}
fn item(i: &syn::Item) -> Value {
    match i {
        syn::Item::Fn(f) => json!({"k":"fn","line": line(f), "end_line": end_line(f), "cfg": cfgs(&f.attrs), "sig": sig(&f.sig), "body": block(&f.block)}),
        syn::Item::Impl(im) => json!({"k":"impl","line": line(im), "cfg": cfgs(&im.attrs), "self_ty": ts(&im.self_ty).replace(' ', ""),
            "trait": im.trait_.as_ref().map(|(_, p, _)| ts(p).replace(' ', "")),
            "items": im.items.iter().filter_map(|it| match it {
                syn::ImplItem::Fn(m) => Some(json!({"k":"fn","line": line(m), "end_line": end_line(m), "cfg": cfgs(&m.attrs), "sig": sig(&m.sig), "body": block(&m.block)})),
                syn::ImplItem::Const(c) => Some(json!({"k":"const","name": c.ident.to_string(), "ty": ts(&c.ty), "e": expr(&c.expr)})),
                _ => None }).collect::<Vec<_>>()}),
        syn::Item::Struct(s) => json!({"k":"struct","line": line(s), "cfg": cfgs(&s.attrs), "name": s.ident.to_string(), "fields": fields(&s.fields)}),
        syn::Item::Enum(e) => json!({"k":"enum","line": line(e), "cfg": cfgs(&e.attrs), "name": e.ident.to_string(),
            "variants": e.variants.iter().map(|v| json!({"name": v.ident.to_string(), "fields": fields(&v.fields), "named": matches!(v.fields, syn::Fields::Named(_))})).collect::<Vec<_>>()}),
        syn::Item::Const(c) => json!({"k":"const","line": line(c), "cfg": cfgs(&c.attrs), "name": c.ident.to_string(), "ty": ts(&c.ty).replace(' ', ""), "e": expr(&c.expr)}),
        syn::Item::Static(c) => json!({"k":"static","line": line(c), "cfg": cfgs(&c.attrs), "name": c.ident.to_string(), "ty": ts(&c.ty).replace(' ', ""), "e": expr(&c.expr)}),
        syn::Item::Mod(m) => json!({"k":"mod","cfg": cfgs(&m.attrs), "name": m.ident.to_string(),
            "items": m.content.as_ref().map(|(_, its)| its.iter().map(item).collect::<Vec<_>>())}),
        syn::Item::Use(_) => json!({"k":"use"}),
        syn::Item::Macro(m) => json!({"k":"macro_def","name": m.ident.as_ref().map(|i| i.to_string())}),
        syn::Item::Type(t) => json!({"k":"type_alias","name": t.ident.to_string(), "ty": ts(&t.ty).replace(' ', "")}),
        other => json!({"k":"other_item","s": ts(other).chars().take(60).collect::<String>()}),
    }
}
fn main() {
    for path in std::env::args().skip(1) {
        let src = std::fs::read_to_string(&path).expect("read");
        let file = syn::parse_file(&src).expect("parse");
        let out = json!({"file": path, "items": file.items.iter().map(item).collect::<Vec<_>>()});
        println!("{}", serde_json::to_string(&out).unwrap());
    }
}
