#!/bin/bash
# usage: try_patch.sh <patch.diff> <check id>... : apply to /repo, run quick checks, always revert
PATCH=$1; shift
cd /repo || exit 9
if [ -n "$(git status --porcelain --untracked-files=no)" ]; then echo "REPO DIRTY, refusing"; exit 9; fi
if ! git apply --check "$PATCH"; then echo "PATCH_DOES_NOT_APPLY"; exit 8; fi
git apply "$PATCH"
cd /verif
for id in "$@"; do
  ./check $id --tier quick > /tmp/try_$id.log 2>&1; rc=$?
  echo "$id rc=$rc $(grep -c '^VIOLATION' /tmp/try_$id.log) violations; $(tail -1 /tmp/try_$id.log | cut -c1-160)"
  grep -A1 '^VIOLATION' /tmp/try_$id.log | grep -v '^--' | head -4 | cut -c1-300
  grep '^INCONCLUSIVE' /tmp/try_$id.log | head -2 | cut -c1-300
done
git -C /repo checkout -- .
