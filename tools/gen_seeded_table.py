#!/usr/bin/env python3
"""Regenerates DESIGN.md section 11.6 from seeded/*/meta.json."""
import json, glob, os
HERE = os.path.dirname(os.path.dirname(os.path.abspath(__file__)))
out = ["""### 11.6 Seeded changes (`/verif/seeded/<id>_<A|B>/`) and which checks catch them

Each change was produced by a fresh sub-agent that saw only the text of one property and a scratch
worktree (nothing from `/verif`), compiles, passes the existing suite, and needs something specific to
manifest; I confirmed each demonstration on the unchanged and on the changed tree in a scratch worktree
(`meta.json: confirmed_by_me`). To run one: `git -C /repo apply /verif/seeded/<id>/patch.diff &&
./check <ID> --tier quick; git -C /repo checkout -- .` (`tools/try_patch.sh` does exactly that and always
reverts). "First trial" = the check as it was before it had seen that change; everything listed as added
afterwards is part of the committed check. Three patches (C01_B, C09_B, C05_A) were rebased onto the final
`/repo` HEAD because a later `fix:` commit changed their context lines (originals kept next to them).

| change | what it is (short) | caught by | history |
|---|---|---|---|"""]
n = caught = 0
for d in sorted(glob.glob(os.path.join(HERE, 'seeded', '*', ''))):
    name = os.path.basename(d.rstrip('/'))
    m = json.load(open(os.path.join(d, 'meta.json')))
    summ = m.get('summary', '').replace('|', '/').replace('\n', ' ')
    summ = summ[:170] + ('…' if len(summ) > 170 else '')
    note = m.get('detection_note', '').replace('|', '/').replace('\n', ' ')
    c = m.get('checks_that_catch_it', '')
    n += 1
    caught += 1 if c else 0
    out.append("| %s | %s | %s | %s |" % (name, summ, c or '—', note))
out.append("""
Result: %d of %d changes are reported as `VIOLATION` by the quick tier of the named check (each violation
was replayed natively first). Not reported: C13_A (deliberately: the statement does not cover it), C08_B
(batch of more than 1024 entries, outside the stated bound on batch size), C10_A (batch straddling two WAL
files, outside the stated bound of the C10 histories). What the trials changed in the machinery:
failing-append and restart skeletons (C15), str/Option library models (C14, C25), fault skeletons (C04),
two-restart and poll skeletons and the systematic enumeration (C06), post-crash suffixes, batch-read drains,
a crash point after the last operation, the "front loss = skip" classification and the tiny/medium job groups
(C07–C09), targeted suffixes (C12), the data-directory clause (C13), topic-length boundary jobs (C04/C16),
reopen + holding schedule (C17), short reads + UTF-8 automaton + windowed long lines (C24), un-synced content
behind a surviving rename (C10), a scheduling point at the batch-read lock release and AtLeastOnce histories
(C05), and job-ordered time-sliced scheduling everywhere, because several first misses were "found when run
alone, cut by the budget in the full check".
""" % (caught, n))
p = os.path.join(HERE, 'DESIGN.md')
s = open(p).read()
if '### 11.6 Seeded changes' in s:
    s = s[:s.index('### 11.6 Seeded changes')]
open(p, 'w').write(s.rstrip('\n') + '\n\n' + '\n'.join(out) + '\n')
print(caught, n)
