// Caching arena allocator for CPython 3.11 (installed through PyObject_SetArenaAllocator via ctypes).
// CPython 3.11 allocates the per-thread frame data stack in 16 KiB chunks with mmap and unmaps a chunk as soon as
// it is empty; a deeply recursive interpreter that oscillates around a chunk boundary then does one mmap/munmap
// pair per call, which is very expensive in this sandbox. This allocator keeps freed regions on a free list.
#include <stddef.h>
#include <sys/mman.h>

#define CLASSES 8
#define MAXCACHED 64
static size_t cls_size[CLASSES];
static void *cache[CLASSES][MAXCACHED];
static int ncached[CLASSES];
static int nclasses = 0;

static int cls_of(size_t size) {
    for (int i = 0; i < nclasses; i++) if (cls_size[i] == size) return i;
    if (nclasses < CLASSES) { cls_size[nclasses] = size; ncached[nclasses] = 0; return nclasses++; }
    return -1;
}
void *arenacache_alloc(void *ctx, size_t size) {
    int c = cls_of(size);
    if (c >= 0 && ncached[c] > 0) return cache[c][--ncached[c]];
    void *p = mmap(NULL, size, PROT_READ | PROT_WRITE, MAP_PRIVATE | MAP_ANONYMOUS, -1, 0);
    return p == MAP_FAILED ? NULL : p;
}
void arenacache_free(void *ctx, void *ptr, size_t size) {
    int c = cls_of(size);
    if (c >= 0 && ncached[c] < MAXCACHED) { cache[c][ncached[c]++] = ptr; return; }
    munmap(ptr, size);
}
