#!/usr/bin/env python3
"""Regenerates MANIFEST.json from the table below (kept in one place so that it is always valid)."""
import json, os
HERE = os.path.dirname(os.path.dirname(os.path.abspath(__file__)))
ENGINE_NOTE = 'Trusted: the syn->JSON AST dump, the interpreter, the environment models listed in the evidence (extent file model, rkyv header tokens, injective checksum, io_uring queue, fs, clock); the interpreter is differential-tested against the real engine on concrete scripts on every run, every counterexample is replayed natively before it is reported and a sample of passing path classes is replayed as well. Outside the claim: histories longer than the listed skeletons, payload content effects, checksum collisions.'
CLAIMED = {
 'C01': dict(text='Bounded symbolic model checking of the real append/read source (append_for_topic, batch_append_for_topic, read_next, batch_read_for_topic, Writer, allocator, Block, storage): for each operation skeleton every payload size 0..2^30-256 and every byte budget 0..2^64-1 is a solver variable; z3 decides each branch and the exactly-once/in-order/byte-identical/no-skip oracle on every path class; both back ends and both consistency modes.',
             note=ENGINE_NOTE, technique='source-level symbolic execution of the engine (rs2json AST + z3 bit-vectors, extent storage model), native replay gate', ref='7/C01'),
 'C03': dict(text='Same exploration as C01 with the batch-read oracle: at most 2000 entries, total payload within the byte budget unless exactly one entry, and progress whenever an unconsumed entry exists; budgets fully symbolic including 0 and usize::MAX.',
             note=ENGINE_NOTE, technique='source-level symbolic execution of batch_read_for_topic (z3 bit-vectors), native replay gate', ref='7/C03'),
 'C04': dict(text='Bounded symbolic model checking of the real write path with rejected operations interleaved: oversized entries (single and inside a batch), topic names too long for the entry header (single and batch path), 2001-entry and >10 GiB batches, followed by reads and (thorough) a clean reopen; sizes symbolic; oracle: a failed call contributes nothing, later reads still deliver exactly the successful entries in order, counts unchanged, no panic.',
             note=ENGINE_NOTE + ' I/O fault injection (failed io_uring completions, failed file creation/fsync) and the concurrent-reader clause are not part of this check yet.',
             technique='source-level symbolic execution of Writer::write/batch_write/submit_batch_via_io_uring (z3 bit-vectors, io_uring queue model), native replay gate', ref='7/C04'),
 'C06': dict(text='Bounded symbolic model checking of restart histories: appends and consuming reads, a clean shutdown, and the real Walrus::with_paths/startup_chore/rebuild_topic_entry_counts_after_recovery/cursor hydration interpreted on the model file system; sizes symbolic (<= 32 MiB in multi-operation histories, every accepted size in the single-append history); oracle: the stream, order, remaining entries and counts are what they would be without the restart.',
             note=ENGINE_NOTE + ' The wall clock is monotone in this model (clock regression between runs is outside the claim).',
             technique='source-level symbolic execution of recovery and read paths (z3 bit-vectors, extent file model surviving the process), native replay gate', ref='7/C06'),
 'C12': dict(text='Bounded symbolic model checking of the real reclamation bookkeeping (BlockStateTracker, FileStateTracker, flush_check, deletion channel) on a concrete history that fully allocates and seals a 1000 MiB file shared by two topics, followed by every sequence of up to 3 (quick) / 4 (thorough) reads, peeks and batch reads with symbolic budgets; oracle: a file reaches the deletion channel only when every entry stored in it was consumed. Counterexamples are replayed with the real background reclaimer (1 ms ticks), a restart and a drain of every topic.',
             note=ENGINE_NOTE + ' One concrete allocation prefix; other file layouts and longer suffixes are outside the claim.',
             technique='source-level symbolic execution of allocator/tracker code (z3), native replay with the real reclaimer thread', ref='7/C12'),
 'C13': dict(text='Same driver with two instances (different namespace keys) in one process: the second instance builds and reads through its own sealed blocks (fixed suffixes of up to 8 reads/peeks plus all suffixes of length <= 2); oracle: nothing the second instance does gets a file of the first instance handed to the deletion channel while it holds unconsumed entries; replay drains both instances after a restart.',
             note=ENGINE_NOTE + ' Only the reclamation channel of interference is decided (entries, cursors, counts and markers of the other instance are compared only in the native replays).',
             technique='source-level symbolic execution with process-global statics shared by two model instances (z3), native replay', ref='7/C13'),
 'C14': dict(text='Bounded symbolic model checking of the real sanitize_namespace and WalPathManager::{with_data_dir, for_key, default}: the key is a vector of arbitrary Unicode scalar values of every length 0..8 (quick) / 0..24 (thorough); z3 shows the pushed directory component is non-empty, free of separators/NUL and neither "." nor ".."; counterexamples are replayed by building a real instance and listing where its files appear.',
             note='Trusted: AST dump, interpreter, models of PathBuf::push, chars/map/collect, is_ascii_alphanumeric, trim_matches, format!("ns_{:x}"); differential-tested against the real builder on concrete keys on every run. Longer keys are outside the claim.',
             technique='source-level symbolic execution (z3, strings as code-point vectors, If-merged per-character closure), native replay gate', ref='7/C14'),
 'C15': dict(text='Same exploration with the count oracle: after every operation get_topic_entry_count equals appended minus consumed entries, decided by z3 on every path class.',
             note=ENGINE_NOTE, technique='source-level symbolic execution (z3), native replay gate', ref='7/C15'),
 'C16': dict(text='Two-run differential decided by the solver: each operation skeleton (appends, batches, rejected operations, reads, restarts) is interpreted under the FD/io_uring back end and under the mmap back end inside one symbolic path with the same size/budget variables; z3 must show every observation (results, error kinds, returned entries, counts) equal.',
             note=ENGINE_NOTE + ' The real kernel io_uring/mmap are exercised only in the native replays of both back ends in separate processes.',
             technique='source-level symbolic execution, product of two runs with shared symbolic inputs (z3), native replay of both back ends', ref='7/C16'),
 'C17': dict(text='Bounded symbolic model checking of the real marker code (TopicCleanTracker, TopicCleanState, CleanMarkerStore, Walrus::mark_*/append, Drop): every history of <= 3 (quick) / 5 (thorough) operations from {append, mark_topic_clean, mark_topic_dirty}; the in-memory clause is checked after every call; for the restart clause the persister closure spawned by the source is a model thread that either completes a pass before the instance is dropped or never runs, then the instance is dropped (Drop impls from the source) and reopened in a fresh process.',
             note=ENGINE_NOTE + ' Only two persister schedules are explored (complete pass / no step); replays repeat the real drop-and-reopen up to 10 times because the native window is timing dependent.',
             technique='source-level symbolic execution with the persister as a scheduled model thread (z3 decides the driver choices), native replay', ref='7/C17'),
 'C18': dict(text='Bounded symbolic model checking of the real Metadata::apply: every command sequence up to length 3-4 (quick) / 4-6 (thorough) over {create, rollover, upsert, undecodable bytes} x topics {a,b} x leaders 1..3 with sealed counts as 64-bit solver variables; after every step z3 decides the four invariants (segments 1..current with one leader each, open segment leader = topic leader, sealed (count, leader) pairs immutable, cumulative offset = sum of sealed counts) and the no-panic obligation (release semantics; the debug-profile overflow obligation is explored separately).',
             note='Trusted: AST dump, interpreter, HashMap/RwLock models, bincode modelled as a total decode function (real bincode cannot be built offline). Replay runs the real metadata.rs compiled against two scaffolding shims (octopii trait, JSON-backed bincode). Longer sequences are outside the claim.',
             technique='source-level symbolic execution (z3 bit-vectors), native replay through a shim harness', ref='7/C18'),
 'C24': dict(text='Bounded symbolic model checking of the real client.rs (handle_connection, handle_command, send_response): every byte stream of length 0..12 (quick) / 0..16 (thorough) with all bytes symbolic, plus shaped REGISTER/PUT/GET exchanges with symbolic frame bodies; z3 decides that every server length-prefix read is a client frame boundary, that responses correspond one-to-one to frames, and that a PUT payload reaches the controller and comes back from GET byte-identical (ASCII bodies).',
             note='Trusted: AST dump, interpreter, models of read_exact/write_all, from_utf8 (identity on ASCII, nondeterministic otherwise), trim_end, splitn, format!; the controller is a stub. Replay runs the real client.rs compiled against an in-memory tokio shim and the same controller stub. Longer streams and non-ASCII payload content are outside the claim.',
             technique='source-level symbolic execution of the async handlers (z3 bit-vectors for bytes, Int code points for text), native replay through a shim harness', ref='7/C24'),
 'C25': dict(text='Bounded symbolic model checking of the real wal_key/parse_wal_key source: for every topic length 0..12 (quick) / 0..40 (thorough) of arbitrary Unicode scalar values and every u64 segment, z3 shows the round trip returns the same pair; every counterexample is replayed through the real functions before it is reported.',
             note='Trusted: the syn->JSON AST dump, the interpreter, four std string models (format!, rsplitn, strip_prefix, parse::<u64>) which are differential-tested against the real functions on every run; strings longer than the bound are outside the claim.',
             technique='source-level symbolic execution (rs2json AST + z3, strings as code-point vectors, digits as Int variables), native replay gate', ref='7/C25'),
}
NA = {
 'C19': 'Lives in the vendored openraft core driven over QUIC; octopii/openraft do not resolve offline (no IR, nothing to replay against); a source-level encoding of a Raft implementation with message loss is out of reach of bounded symbolic execution here.',
 'C20': 'Adapter code over openraft/bincode types from crates absent offline; an encoding would consist of models only.',
 'C21': 'octopii (tokio/bincode/openraft, vendored older engine copy with io-uring 0.6) cannot be built offline, so a solver counterexample could never be replayed against the real code.',
 'C22': 'Depends on interleavings of controller tasks with Raft proposal/apply across nodes; not buildable, not replayable, schedule space includes openraft internals.',
 'C23': 'Race between the openraft apply task and the data plane; same reasons as C22.',
}
ALL = ['C%02d' % i for i in range(1, 26)]
def main():
    checks = []
    for pid, c in sorted(CLAIMED.items()):
        checks.append(dict(property_id=pid, quick_cmd='./check %s --tier quick' % pid, thorough_cmd='./check %s --tier thorough' % pid,
                           evidence_file='evidence/%s.json' % pid, replay_cmd_template='./check %s --replay {path}' % pid, engine=c.get('engine', 'rsym'),
                           level_claimed=dict(category='model_checking', text=c['text'], design_ref='DESIGN.md section ' + c['ref']),
                           level_note=c['note'], technique=c['technique']))
    na = []
    for pid in ALL:
        if pid in CLAIMED: continue
        na.append(dict(property_id=pid, reason=NA.get(pid, 'driver not built yet in this session (solver-based check planned in DESIGN.md; not replaced by another technique)')))
    m = dict(version=1, setup_cmd='./setup.sh',
             hooks=dict(guard='walrus_verif', enable='RUSTFLAGS="--cfg walrus_verif" (set by the native replayer build when a replay needs a hook)',
                        baseline_off_cmd=json.load(open('/root/.vp/BASELINE.json'))['cmd'], source_commits=HOOK_COMMITS, add_only=True),
             engines=[dict(name='rsym', path='rsym/', serves_properties=sorted(p for p, c in CLAIMED.items() if c.get('engine', 'rsym') == 'rsym'),
                           kind_free_text='source-level symbolic interpreter (syn AST -> JSON -> Python + z3), re-execution forking, environment models, native replay gate'),
                      dict(name='kani-lemmas', path='kani/', serves_properties=sorted(p for p, c in CLAIMED.items() if 'kani' in c.get('engine', '')),
                           kind_free_text='Kani/CBMC harnesses on leaf code (Block-level lemmas)')],
             checks=checks, notes='See DESIGN.md. Exit 2 = inconclusive (never a violation).', not_applicable=na)
    json.dump(m, open(os.path.join(HERE, 'MANIFEST.json'), 'w'), indent=1)
HOOK_COMMITS = []
if __name__ == '__main__':
    main()
