#!/bin/bash
# Build the framework offline from files on disk only.
set -e
cd "$(dirname "$0")"
export CARGO_NET_OFFLINE=true
mkdir -p build evidence replays
(cd tools/rs2json && CARGO_TARGET_DIR=../../build/rs2json cargo build --release --offline 2>&1 | tail -2)
(cd native/dshim && CARGO_TARGET_DIR=../../build/dshim cargo build --release --offline 2>&1 | tail -2)
if [ -d native/replayer ]; then
  (cd native/replayer && CARGO_TARGET_DIR=../../build/replayer cargo build --release --offline 2>&1 | tail -2)
  (cd native/replayer && RUSTFLAGS="--cfg walrus_verif" CARGO_TARGET_DIR=../../build/replayer_hooks cargo build --release --offline 2>&1 | tail -2)
fi
cc -O2 -shared -fPIC -o build/arenacache.so tools/arenacache/arenacache.c
python3-vt -c "import z3; print('z3', z3.get_version_string())"
echo setup ok
