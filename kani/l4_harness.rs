// Kani lemma L4 (C11): the REAL Block::read on an arbitrary 256-byte header never performs an out-of-bounds
// access, never panics, and either errors or returns an entry whose checksum matched.
// One harness per meta_len class (the length prefix is concrete so that rkyv's root position is concrete);
// the other 254 header bytes are arbitrary. Appended to src/wal/block.rs of a scratch copy by kani/run_l4.sh.
#[cfg(kani)]
mod verif_kani {
    use super::*;
    use crate::wal::storage::SharedMmap;

    fn fmt_stub(_args: core::fmt::Arguments<'_>) -> String {
        String::new()
    }
    // rkyv's validator owns a HashMap; its RandomState seeds itself through getrandom(2), which CBMC cannot model
    fn random_state_stub() -> std::collections::hash_map::RandomState {
        // RandomState is two u64 keys; any value is a valid one
        unsafe { core::mem::zeroed() }
    }

    fn run(meta_len: usize) {
        // 288 bytes of storage: header at offset 0, up to 32 payload bytes (keeps the checksum loop within the unwind bound)
        let mut bytes = vec![0u8; 288];
        bytes[0] = (meta_len & 0xff) as u8;
        bytes[1] = (meta_len >> 8) as u8;
        let hdr: [u8; 64] = kani::any();
        // the archive occupies bytes 2..2+meta_len (meta_len <= 64 in these classes); the rest stays zero
        bytes[2..66].copy_from_slice(&hdr);
        let mmap = SharedMmap::new_mem(bytes);
        let block = Block { id: 1, offset: 0, limit: 288, used: 0, file_path: String::new(), mmap };
        let r = block.read(0);
        kani::cover!(r.is_err(), "header rejected");
        if let Ok((entry, consumed)) = r {
            // an accepted entry carries a payload whose checksum matched, and consumed = header + payload
            assert!(consumed == PREFIX_META_SIZE + entry.data.len());
            core::mem::forget(entry);
        } else {
            core::mem::forget(r);
        }
        core::mem::forget(block);
    }

    macro_rules! l4 {
        ($name:ident, $len:expr) => {
            #[kani::proof]
            #[kani::unwind(42)]
            #[kani::stub(alloc::fmt::format, fmt_stub)]
            #[kani::stub(std::collections::hash_map::RandomState::new, random_state_stub)]
            fn $name() {
                run($len);
            }
        };
    }
    l4!(l4_meta_len_1, 1);
    l4!(l4_meta_len_8, 8);
    l4!(l4_meta_len_31, 31);
    l4!(l4_meta_len_32, 32);
    l4!(l4_meta_len_33, 33);
    l4!(l4_meta_len_40, 40);
    l4!(l4_meta_len_64, 64);
}
