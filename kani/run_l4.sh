#!/bin/bash
# Runs the Kani lemma L4 harnesses against a scratch copy of /repo's current working tree.
# exit 0: every harness VERIFICATION:- SUCCESSFUL; exit 1: some harness FAILED (counterexample); exit 2: inconclusive
set -u
HARNESSES=${KANI_HARNESSES:-"l4_meta_len_1 l4_meta_len_8"}
TMO=${KANI_TIMEOUT:-600}
S=$(mktemp -d /tmp/walrus-verif-kani.XXXXXX)
trap "cp \"\$S\"/*.log /tmp/ 2>/dev/null; rm -rf \"\$S\"" EXIT
mkdir -p "$S/src"
(cd /repo && git ls-files -z -- src Cargo.toml Cargo.lock | xargs -0 -I{} cp --parents {} "$S/") 2>/dev/null
# working-tree edits (uncommitted) must be seen too
(cd /repo && cp -r src "$S/" && cp Cargo.toml Cargo.lock "$S/")
# drop test/bench targets that need dev-dependencies
python3 - "$S/Cargo.toml" <<'PY'
import sys,re
p=sys.argv[1]; s=open(p).read()
s=re.sub(r'\[\[test\]\]\nname = "[^"]*"\npath = "[^"]*"\n\n?', '', s)
s=re.sub(r"\[target\.'cfg\(target_os = \"linux\"\)'\.dev-dependencies\]\n(?:[^\[\n].*\n)*", '', s)
open(p,'w').write(s+"\n[workspace]\n")
PY
cat /verif/kani/l4_harness.rs >> "$S/src/wal/block.rs"
cd "$S"
rc=0
for h in $HARNESSES; do
  start=$(date +%s)
  ( ulimit -v 14000000; CARGO_NET_OFFLINE=true timeout $TMO cargo kani -Z stubbing --harness $h --target-dir "$S/target" > "$S/$h.log" 2>&1 )
  st=$?
  el=$(( $(date +%s) - start ))
  if grep -q "VERIFICATION:- SUCCESSFUL" "$S/$h.log"; then
    echo "KANI $h SUCCESSFUL ${el}s $(grep -c 'Status: SATISFIED' "$S/$h.log") cover-satisfied"
  elif grep -q "VERIFICATION:- FAILED" "$S/$h.log" && ! grep -A2 "Status: FAILURE" "$S/$h.log" | grep "Description:" | grep -qv "unwinding assertion"; then
    # only unwinding assertions failed: the bound was too small, nothing is decided
    echo "KANI $h INCONCLUSIVE (unwinding bound too small, ${el}s)"
    [ $rc -eq 0 ] && rc=2
  elif grep -q "VERIFICATION:- FAILED" "$S/$h.log"; then
    echo "KANI $h FAILED ${el}s"
    grep -E "^Failed Checks|Status: FAILURE" -A2 "$S/$h.log" | head -20
    grep -B2 -A6 "Status: FAILURE" "$S/$h.log" | head -60 > /verif/kani/last_counterexample.txt
    rc=1
  else
    echo "KANI $h INCONCLUSIVE (exit $st, ${el}s): $(tail -3 "$S/$h.log" | tr '\n' ' ' | cut -c1-300)"
    [ $rc -eq 0 ] && rc=2
  fi
done
exit $rc
