// Native replay for C24: runs the REAL handle_connection (distributed-walrus/src/client.rs, included by path)
// over an in-memory byte stream against a recording controller stub, and prints what the server read and wrote.
#![allow(dead_code)]
mod controller {
    use anyhow::{anyhow, Result};
    use std::collections::{HashMap, VecDeque};
    use std::sync::Mutex;
    /// Stub with the five methods client.rs calls; topics are queues (REGISTER creates one, PUT to an unknown topic fails).
    pub struct NodeController {
        pub topics: Mutex<HashMap<String, VecDeque<Vec<u8>>>>,
        pub log: Mutex<Vec<String>>,
    }
    impl NodeController {
        pub fn new() -> Self { NodeController { topics: Mutex::new(HashMap::new()), log: Mutex::new(Vec::new()) } }
        pub async fn ensure_topic(&self, topic: &str) -> Result<()> {
            self.topics.lock().unwrap().entry(topic.to_string()).or_default();
            Ok(())
        }
        pub async fn append_for_topic(&self, topic: &str, data: Vec<u8>) -> Result<()> {
            match self.topics.lock().unwrap().get_mut(topic) {
                Some(q) => { q.push_back(data); Ok(()) }
                None => Err(anyhow!("unknown topic {}", topic)),
            }
        }
        pub async fn read_one_for_topic_shared(&self, topic: &str) -> Result<Option<Vec<u8>>> {
            match self.topics.lock().unwrap().get_mut(topic) {
                Some(q) => Ok(q.pop_front()),
                None => Err(anyhow!("unknown topic {}", topic)),
            }
        }
        pub fn topic_snapshot(&self, topic: &str) -> Result<String> {
            if self.topics.lock().unwrap().contains_key(topic) { Ok("STATE".into()) } else { Err(anyhow!("unknown topic {}", topic)) }
        }
        pub fn get_metrics(&self) -> Result<String> { Ok("METRICS".into()) }
    }
}
// included at the crate root so that the private handle_connection is callable and `crate::controller` resolves to the stub
include!("/repo/distributed-walrus/src/client.rs");

use std::io::BufRead;

fn main() {
    let stdin = std::io::stdin();
    for line in stdin.lock().lines() {
        let line = line.unwrap();
        if line.trim().is_empty() { continue; }
        let v: serde_json::Value = serde_json::from_str(&line).unwrap();
        let bytes: Vec<u8> = v["stream"].as_array().unwrap().iter().map(|b| b.as_u64().unwrap() as u8).collect();
        let mut sock = tokio::net::TcpStream::from_bytes(bytes);
        if let Some(sg) = v["segments"].as_array() { sock.segments = sg.iter().map(|x| x.as_u64().unwrap() as usize).collect(); }
        let out = sock.output.clone();
        let reads = sock.reads.clone();
        let ctl = std::sync::Arc::new(controller::NodeController::new());
        let r = std::panic::catch_unwind(std::panic::AssertUnwindSafe(|| tokio::block_on(handle_connection(sock, ctl))));
        let r = match r {
            Ok(r) => r,
            Err(_) => {
                println!("{}", serde_json::json!({"result": "panic", "output": *out.lock().unwrap(), "reads": *reads.lock().unwrap()}));
                continue;
            }
        };
        println!("{}", serde_json::json!({"result": if r.is_ok() { "ok".to_string() } else { format!("err: {}", r.unwrap_err()) },
            "output": *out.lock().unwrap(), "reads": *reads.lock().unwrap()}));
    }
}
