// Native replay for C18: drives the REAL Metadata::apply (distributed-walrus/src/metadata.rs, included by path)
// with a command sequence and prints the observable topic state after every step.
#[allow(dead_code)]
#[path = "/repo/distributed-walrus/src/metadata.rs"]
mod metadata;

use metadata::{Metadata, MetadataCmd};
use octopii::StateMachineTrait;
use std::io::BufRead;
use std::panic::{catch_unwind, AssertUnwindSafe};

fn topic_json(m: &Metadata, name: &str) -> serde_json::Value {
    match m.get_topic_state(name) {
        None => serde_json::Value::Null,
        Some(t) => serde_json::json!({
            "current_segment": t.current_segment, "leader_node": t.leader_node,
            "last_sealed_entry_offset": t.last_sealed_entry_offset,
            "sealed_segments": t.sealed_segments.iter().map(|(k, v)| (k.to_string(), *v)).collect::<std::collections::BTreeMap<_, _>>(),
            "segment_leaders": t.segment_leaders.iter().map(|(k, v)| (k.to_string(), *v)).collect::<std::collections::BTreeMap<_, _>>(),
        }),
    }
}

fn main() {
    std::panic::set_hook(Box::new(|_| {}));
    let stdin = std::io::stdin();
    for line in stdin.lock().lines() {
        let line = line.unwrap();
        if line.trim().is_empty() { continue; }
        let seq: serde_json::Value = serde_json::from_str(&line).unwrap();
        let m = Metadata::new();
        let mut steps = Vec::new();
        for c in seq["cmds"].as_array().unwrap() {
            let bytes: Vec<u8> = match c["kind"].as_str().unwrap() {
                "create" => bincode::serialize(&MetadataCmd::CreateTopic { name: c["name"].as_str().unwrap().to_string(), initial_leader: c["leader"].as_u64().unwrap() }).unwrap(),
                "rollover" => bincode::serialize(&MetadataCmd::RolloverTopic { name: c["name"].as_str().unwrap().to_string(), new_leader: c["leader"].as_u64().unwrap(), sealed_segment_entry_count: c["count"].as_u64().unwrap() }).unwrap(),
                "upsert" => bincode::serialize(&MetadataCmd::UpsertNode { node_id: c["leader"].as_u64().unwrap(), addr: "x".to_string() }).unwrap(),
                _ => vec![0xff, 0x00, 0x13],
            };
            let r = catch_unwind(AssertUnwindSafe(|| m.apply(&bytes)));
            let res = match r {
                Ok(Ok(b)) => serde_json::json!({"ok": String::from_utf8_lossy(&b)}),
                Ok(Err(e)) => serde_json::json!({"err": e}),
                Err(_) => serde_json::json!({"panic": true}),
            };
            let st = catch_unwind(AssertUnwindSafe(|| serde_json::json!({"a": topic_json(&m, "a"), "b": topic_json(&m, "b")})));
            steps.push(serde_json::json!({"result": res, "state": st.unwrap_or(serde_json::json!({"poisoned": true}))}));
        }
        println!("{}", serde_json::json!({"steps": steps}));
    }
}
