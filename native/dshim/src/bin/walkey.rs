// Native replay for C25: feeds (topic code points, segment) through the REAL wal_key / parse_wal_key
// (distributed-walrus/src/controller/types.rs, included by path from the current working tree).
#[allow(dead_code)]
#[path = "/repo/distributed-walrus/src/controller/types.rs"]
mod types;

use std::io::BufRead;

fn main() {
    let stdin = std::io::stdin();
    for line in stdin.lock().lines() {
        let line = line.unwrap();
        if line.trim().is_empty() { continue; }
        let v: serde_json::Value = serde_json::from_str(&line).unwrap();
        let topic: String = v["topic"].as_array().unwrap().iter()
            .map(|c| char::from_u32(c.as_u64().unwrap() as u32).unwrap()).collect();
        let seg = v["segment"].as_u64().unwrap();
        let key = types::wal_key(&topic, seg);
        let parsed = types::parse_wal_key(&key);
        let out = match parsed {
            Some((t, s)) => serde_json::json!({"key": key.chars().map(|c| c as u32).collect::<Vec<_>>(),
                "some": true, "topic": t.chars().map(|c| c as u32).collect::<Vec<_>>(), "segment": s,
                "roundtrip": t == topic && s == seg}),
            None => serde_json::json!({"key": key.chars().map(|c| c as u32).collect::<Vec<_>>(), "some": false, "roundtrip": false}),
        };
        println!("{}", out);
    }
}
