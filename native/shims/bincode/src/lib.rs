//! Replay scaffolding only: a stand-in for `bincode` (absent from the offline cache) with the same two entry
//! points, encoding values as JSON. What real bincode does with arbitrary bytes is outside every claim.
pub type Error = Box<serde_json::Error>;
pub fn deserialize<'a, T: serde::Deserialize<'a>>(bytes: &'a [u8]) -> Result<T, Error> {
    serde_json::from_slice(bytes).map_err(Box::new)
}
pub fn serialize<T: serde::Serialize + ?Sized>(v: &T) -> Result<Vec<u8>, Error> {
    serde_json::to_vec(v).map_err(Box::new)
}
