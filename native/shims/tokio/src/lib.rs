//! Replay scaffolding only: the handful of tokio items distributed-walrus/src/client.rs uses, backed by
//! in-memory byte queues. All futures complete immediately. The real tokio is absent from the offline cache.
pub mod io {
    use std::io;
    #[allow(async_fn_in_trait)]
    pub trait AsyncReadExt {
        async fn read_exact(&mut self, buf: &mut [u8]) -> io::Result<usize>;
        async fn read(&mut self, buf: &mut [u8]) -> io::Result<usize>;
    }
    #[allow(async_fn_in_trait)]
    pub trait AsyncWriteExt {
        async fn write_all(&mut self, src: &[u8]) -> io::Result<()>;
    }
}
pub mod net {
    use std::io;
    use std::sync::{Arc, Mutex};
    pub struct TcpStream {
        pub input: Vec<u8>,
        pub pos: usize,
        pub output: Arc<Mutex<Vec<u8>>>,
        pub reads: Arc<Mutex<Vec<(usize, usize)>>>,
        /// stream offsets at which a TCP segment ends: `read` never returns bytes across such a boundary
        pub segments: Vec<usize>,
    }
    impl TcpStream {
        pub fn from_bytes(input: Vec<u8>) -> Self {
            TcpStream { input, pos: 0, output: Arc::new(Mutex::new(Vec::new())), reads: Arc::new(Mutex::new(Vec::new())), segments: Vec::new() }
        }
    }
    impl crate::io::AsyncReadExt for TcpStream {
        async fn read_exact(&mut self, buf: &mut [u8]) -> io::Result<usize> {
            self.reads.lock().unwrap().push((self.pos, buf.len()));
            if self.input.len() - self.pos < buf.len() {
                self.pos = self.input.len();
                return Err(io::Error::new(io::ErrorKind::UnexpectedEof, "early eof"));
            }
            buf.copy_from_slice(&self.input[self.pos..self.pos + buf.len()]);
            self.pos += buf.len();
            Ok(buf.len())
        }
        async fn read(&mut self, buf: &mut [u8]) -> io::Result<usize> {
            let seg_end = self.segments.iter().copied().filter(|e| *e > self.pos).min().unwrap_or(self.input.len()).min(self.input.len());
            let n = buf.len().min(seg_end - self.pos);
            self.reads.lock().unwrap().push((self.pos, n));
            buf[..n].copy_from_slice(&self.input[self.pos..self.pos + n]);
            self.pos += n;
            Ok(n)
        }
    }
    impl crate::io::AsyncWriteExt for TcpStream {
        async fn write_all(&mut self, src: &[u8]) -> io::Result<()> {
            self.output.lock().unwrap().extend_from_slice(src);
            Ok(())
        }
    }
    pub struct TcpListener;
    impl TcpListener {
        pub async fn bind(_addr: &str) -> io::Result<TcpListener> { Ok(TcpListener) }
        pub async fn accept(&self) -> io::Result<(TcpStream, std::net::SocketAddr)> {
            Err(io::Error::new(io::ErrorKind::Other, "shim listener never accepts"))
        }
    }
}
pub fn spawn<F: std::future::Future + Send + 'static>(_f: F) {}
pub fn block_on<F: std::future::Future>(f: F) -> F::Output {
    use std::task::{Context, Poll, RawWaker, RawWakerVTable, Waker};
    fn noop(_: *const ()) {}
    fn clone(_: *const ()) -> RawWaker { RawWaker::new(std::ptr::null(), &VT) }
    static VT: RawWakerVTable = RawWakerVTable::new(clone, noop, noop, noop);
    let waker = unsafe { Waker::from_raw(RawWaker::new(std::ptr::null(), &VT)) };
    let mut cx = Context::from_waker(&waker);
    let mut f = std::pin::pin!(f);
    loop {
        if let Poll::Ready(v) = f.as_mut().poll(&mut cx) { return v; }
    }
}
