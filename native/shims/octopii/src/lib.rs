//! Replay scaffolding only: the one trait of the real `octopii` crate that distributed-walrus/src/metadata.rs
//! implements (copied signature from octopii/src/state_machine.rs). The real crate cannot be built offline.
use bytes::Bytes;
pub trait StateMachineTrait: Send + Sync {
    fn apply(&self, command: &[u8]) -> std::result::Result<Bytes, String>;
    fn snapshot(&self) -> Vec<u8>;
    fn restore(&self, data: &[u8]) -> std::result::Result<(), String>;
    fn compact(&self) -> std::result::Result<(), String> {
        Ok(())
    }
}
