// Native replayer: runs a JSON script through the public API of the real engine (path dependency on /repo,
// rebuilt from the current working tree) and prints one JSON observation per operation.
use serde_json::{json, Value};
use std::collections::HashMap;
use std::panic::{catch_unwind, AssertUnwindSafe};
use std::path::PathBuf;
use walrus_rust::{FsyncSchedule, ReadConsistency, Walrus};

fn pat_byte(uid: u64, i: u64) -> u8 {
    // splitmix64 of (uid, i): every byte depends on both, so equal-length payloads of different uids differ
    let mut z = (uid.wrapping_add(1)).wrapping_mul(0x9E3779B97F4A7C15) ^ i.wrapping_mul(0xD1B54A32D192ED03);
    z = (z ^ (z >> 30)).wrapping_mul(0xBF58476D1CE4E5B9);
    z = (z ^ (z >> 27)).wrapping_mul(0x94D049BB133111EB);
    z ^= z >> 31;
    ((z >> 56) as u8) | 1 // never zero, so payload bytes differ from unwritten space
}
fn payload(uid: u64, len: usize) -> Vec<u8> {
    let mut v = vec![0u8; len];
    for (i, b) in v.iter_mut().enumerate() {
        *b = pat_byte(uid, i as u64);
    }
    v
}
struct Table {
    lens: HashMap<u64, usize>,
    by_topic: HashMap<String, Vec<u64>>,
}
impl Table {
    fn identify(&self, topic: &str, data: &[u8]) -> Value {
        if data.is_empty() {
            return json!({"len": 0});
        }
        // candidates: every uid of any topic (a foreign payload is an observation too)
        let mut topics: Vec<&String> = self.by_topic.keys().collect();
        topics.sort_by_key(|t| if t.as_str() == topic { 0 } else { 1 });
        for t in topics {
            for uid in &self.by_topic[t] {
                let l = self.lens[uid];
                if l < data.len() {
                    continue;
                }
                let start = l - data.len();
                // cheap probe first
                if data[0] != pat_byte(*uid, start as u64) || data[data.len() - 1] != pat_byte(*uid, (l - 1) as u64) {
                    continue;
                }
                if data.iter().enumerate().all(|(i, b)| *b == pat_byte(*uid, (start + i) as u64)) {
                    return json!({"uid": uid, "start": start, "len": data.len(), "topic": t});
                }
            }
        }
        json!({"unknown": true, "len": data.len()})
    }
}

fn consistency(cfg: &Value) -> ReadConsistency {
    match cfg["consistency"].as_str().unwrap_or("StrictlyAtOnce") {
        "AtLeastOnce" => ReadConsistency::AtLeastOnce { persist_every: cfg["persist_every"].as_u64().unwrap_or(1) as u32 },
        _ => ReadConsistency::StrictlyAtOnce,
    }
}
fn fsync(cfg: &Value) -> FsyncSchedule {
    match cfg["fsync"].as_str().unwrap_or("NoFsync") {
        "SyncEach" => FsyncSchedule::SyncEach,
        "Milliseconds" => FsyncSchedule::Milliseconds(cfg["fsync_ms"].as_u64().unwrap_or(1)),
        _ => FsyncSchedule::NoFsync,
    }
}
fn open(cfg: &Value, dir: &PathBuf, inst: &Value) -> std::io::Result<Walrus> {
    if inst.is_object() && inst["via_env"].as_bool() == Some(true) {
        // the data directory is selected through WALRUS_DATA_DIR at construction time (keyed constructor)
        std::env::set_var("WALRUS_DATA_DIR", dir);
        let key = inst["key"].as_str().unwrap_or("tenant");
        return Walrus::with_consistency_and_schedule_for_key(key, consistency(cfg), fsync(cfg));
    }
    let mut b = Walrus::builder().data_dir(dir.clone()).consistency(consistency(cfg)).fsync_schedule(fsync(cfg));
    let key = if inst.is_object() && !inst["key"].is_null() { &inst["key"] } else { &cfg["key"] };
    if let Some(k) = key.as_str() {
        b = b.key(k);
    } else if let Some(cp) = key.as_array() {
        let s: String = cp.iter().map(|c| char::from_u32(c.as_u64().unwrap() as u32).unwrap()).collect();
        b = b.key(&s);
    }
    b.build()
}
fn err_json(e: &std::io::Error) -> Value {
    json!({"err": format!("{:?}", e.kind()), "msg": e.to_string()})
}
fn list_dir(dir: &PathBuf) -> Value {
    fn walk(p: &std::path::Path, base: &std::path::Path, out: &mut Vec<String>) {
        if let Ok(rd) = std::fs::read_dir(p) {
            for e in rd.flatten() {
                let path = e.path();
                if path.is_dir() {
                    out.push(format!("{}/", path.strip_prefix(base).unwrap().display()));
                    walk(&path, base, out);
                } else {
                    out.push(format!("{}", path.strip_prefix(base).unwrap().display()));
                }
            }
        }
    }
    let mut out = Vec::new();
    walk(dir, dir, &mut out);
    out.sort();
    json!(out)
}

// ---- power-loss support (hooks build): the read-offset index is copied aside right before every rename event,
// so that "this rename and everything after it never reached the disk" can be materialised later
#[cfg(walrus_verif)]
static CUR_OP: std::sync::atomic::AtomicUsize = std::sync::atomic::AtomicUsize::new(0);
#[cfg(walrus_verif)]
static SNAP_DIR: std::sync::OnceLock<(PathBuf, PathBuf)> = std::sync::OnceLock::new();
#[cfg(walrus_verif)]
fn observer(kind: &'static str, count: u64) {
    if kind != "rename" { return; }
    if let Some((data, snap)) = SNAP_DIR.get() {
        let i = CUR_OP.load(std::sync::atomic::Ordering::Relaxed);
        let idx = find_index(data);
        let dst = snap.join(format!("idx.op{}.ev{}", i, count - 1));
        match idx { Some(p) if p.exists() => { let _ = std::fs::copy(&p, &dst); } _ => { let _ = std::fs::write(snap.join(format!("idx.op{}.ev{}.absent", i, count - 1)), b""); } }
    }
}
#[cfg(walrus_verif)]
mod ctl {
    use std::cell::Cell;
    use std::sync::{Condvar, Mutex};
    pub struct Ctl { pub sched: Vec<usize>, pub pos: usize, pub running: Option<usize>, pub parked: Vec<bool>, pub done: Vec<bool>, pub diverged: bool }
    pub static CTL: Mutex<Option<Ctl>> = Mutex::new(None);
    pub static CV: Condvar = Condvar::new();
    thread_local! { pub static TIDX: Cell<Option<usize>> = Cell::new(None); }
    pub fn hook(_site: &'static str) {
        if let Some(i) = TIDX.with(|c| c.get()) { park(i); }
    }
    fn next_allowed(c: &mut Ctl) -> Option<usize> {
        while c.pos < c.sched.len() {
            let t = c.sched[c.pos];
            if t < c.done.len() && c.done[t] { c.pos += 1; c.diverged = true; continue; }
            return if t < c.parked.len() && c.parked[t] { Some(t) } else { None };
        }
        c.parked.iter().position(|p| *p)
    }
    pub fn park(i: usize) {
        let mut g = CTL.lock().unwrap();
        {
            let c = match g.as_mut() { Some(c) => c, None => return };
            if c.running == Some(i) { c.running = None; }
            c.parked[i] = true;
        }
        CV.notify_all();
        loop {
            {
                let c = g.as_mut().unwrap();
                if c.running.is_none() && next_allowed(c) == Some(i) {
                    if c.pos < c.sched.len() { c.pos += 1; }
                    c.running = Some(i);
                    c.parked[i] = false;
                    return;
                }
            }
            let (ng, to) = CV.wait_timeout(g, std::time::Duration::from_secs(10)).unwrap();
            g = ng;
            if to.timed_out() {
                // the schedule cannot be followed (the awaited thread never arrives): fall back to free running
                let c = g.as_mut().unwrap();
                c.diverged = true;
                c.sched.truncate(c.pos);
                if c.running.is_some() && !c.parked.iter().all(|p| *p) { continue; }
                c.running = None;
            }
        }
    }
    pub fn finish(i: usize) {
        let mut g = CTL.lock().unwrap();
        if let Some(c) = g.as_mut() {
            c.done[i] = true;
            if c.running == Some(i) { c.running = None; }
        }
        drop(g);
        CV.notify_all();
    }
}
fn find_index(data: &PathBuf) -> Option<PathBuf> {
    // the instance root is the data dir or one key sub-directory of it
    let direct = data.join("read_offset_idx_index.db");
    if direct.exists() { return Some(direct); }
    if let Ok(rd) = std::fs::read_dir(data) {
        for e in rd.flatten() { let p = e.path().join("read_offset_idx_index.db"); if p.exists() { return Some(p); } }
    }
    Some(direct)
}
fn wal_files(data: &PathBuf) -> Vec<PathBuf> {
    let mut v: Vec<PathBuf> = Vec::new();
    if let Ok(rd) = std::fs::read_dir(data) {
        for e in rd.flatten() {
            let p = e.path();
            let n = p.file_name().unwrap().to_string_lossy().to_string();
            if p.is_file() && n.chars().all(|c| c.is_ascii_digit()) { v.push(p); }
        }
    }
    v.sort();
    v
}
fn power_loss(data: &PathBuf, snap: &PathBuf, op: &Value) -> Value {
    use std::os::unix::fs::FileExt;
    let mut done = Vec::new();
    let files = wal_files(data);
    let mut deletes = Vec::new();
    for d in op["directives"].as_array().cloned().unwrap_or_default() {
        match d["t"].as_str().unwrap_or("") {
            "zero_range" => {
                let f = &files[d["file_ord"].as_u64().unwrap() as usize];
                let (off, len) = (d["off"].as_u64().unwrap(), d["len"].as_u64().unwrap() as usize);
                let fh = std::fs::OpenOptions::new().write(true).open(f).expect("wal file");
                let zeros = vec![0u8; len.min(1 << 20)];
                let mut w = 0usize;
                while w < len { let n = (len - w).min(zeros.len()); fh.write_all_at(&zeros[..n], off + w as u64).expect("zero"); w += n; }
                done.push(format!("zeroed {}+{} in file {}", off, len, d["file_ord"]));
            }
            "delete_file" => { deletes.push(files[d["file_ord"].as_u64().unwrap() as usize].clone()); }
            "index_empty" => {
                let idx = find_index(data).unwrap();
                let _ = std::fs::OpenOptions::new().write(true).open(&idx).and_then(|f| f.set_len(0));
                done.push("index truncated to 0 bytes".to_string());
            }
            "index_state" => {
                let b = d["before"].as_array().unwrap();
                let name = format!("idx.op{}.ev{}", b[0].as_u64().unwrap(), b[1].as_u64().unwrap());
                let idx = find_index(data).unwrap();
                if snap.join(&name).exists() { std::fs::copy(snap.join(&name), &idx).expect("restore index"); done.push(format!("index restored from {}", name)); }
                else if snap.join(format!("{}.absent", name)).exists() { let _ = std::fs::remove_file(&idx); done.push("index removed".to_string()); }
                else { return json!({"err": "NoSnapshot", "msg": name}); }
            }
            _ => {}
        }
    }
    for f in deletes { let _ = std::fs::remove_file(&f); done.push(format!("deleted {}", f.display())); }
    json!({"ok": true, "done": done})
}

fn main() {
    let args: Vec<String> = std::env::args().collect();
    let script: Value = serde_json::from_str(&std::fs::read_to_string(&args[1]).expect("script")).expect("json");
    let dir = PathBuf::from(&args[2]);
    let from: usize = args.get(3).map(|s| s.parse().unwrap()).unwrap_or(0);
    let cfg = &script["config"];
    std::env::set_var("WALRUS_QUIET", "1");
    if cfg["backend"].as_str() == Some("mmap") {
        walrus_rust::disable_fd_backend();
    } else {
        walrus_rust::enable_fd_backend();
    }
    std::panic::set_hook(Box::new(|_| {}));
    let ops = script["ops"].as_array().expect("ops");
    // payload table from the whole script
    let mut table = Table { lens: HashMap::new(), by_topic: HashMap::new() };
    for op in ops {
        let topic = op["topic"].as_str().unwrap_or("t").to_string();
        let mut all: Vec<(String, &Value)> = Vec::new();
        if let Some(es) = op["entries"].as_array() { for e in es { all.push((topic.clone(), e)); } }
        if let Some(subs) = op["ops"].as_array() {
            for so in subs {
                let st = so["topic"].as_str().unwrap_or("t").to_string();
                if let Some(es) = so["entries"].as_array() { for e in es { all.push((st.clone(), e)); } }
            }
        }
        if let Some(ths) = op["threads"].as_array() {
            for so in ths.iter().flat_map(|t| t.as_array().into_iter().flatten()) {
                let st = so["topic"].as_str().unwrap_or("t").to_string();
                if let Some(es) = so["entries"].as_array() { for e in es { all.push((st.clone(), e)); } }
            }
        }
        for (tp, e) in all {
            let uid = e["uid"].as_u64().unwrap();
            table.lens.insert(uid, e["len"].as_u64().unwrap() as usize);
            table.by_topic.entry(tp).or_default().push(uid);
        }
    }
    let snap = dir.parent().map(|p| p.join("snap")).unwrap_or_else(|| dir.join("../snap"));
    let _ = std::fs::create_dir_all(&snap);
    #[cfg(walrus_verif)]
    {
        let _ = SNAP_DIR.set((dir.clone(), snap.clone()));
        if cfg["snapshots"].as_bool() == Some(true) { walrus_rust::wal::verif::set_observer(Some(observer)); }
    }
    let mut insts: HashMap<String, Walrus> = HashMap::new();
    let mut i = from;
    while i < ops.len() {
        let op = &ops[i];
        let kind = op["op"].as_str().unwrap();
        let iname = op["inst"].as_str().unwrap_or("w").to_string();
        let topic = op["topic"].as_str().unwrap_or("t").to_string();
        if kind == "restart_process" && i > from {
            // clean shutdown: the instances are dropped here, with the I/O events of their Drop impls attributed to this op
            #[cfg(walrus_verif)]
            {
                CUR_OP.store(i, std::sync::atomic::Ordering::Relaxed);
                walrus_rust::wal::verif::arm(op["abort_at_event"].as_u64().unwrap_or(0));
            }
            insts.clear();
            #[allow(unused_mut)]
            let mut out = json!({"i": i, "op": kind, "stop": true});
            #[cfg(walrus_verif)]
            { out["events"] = json!(walrus_rust::wal::verif::disarm()); }
            println!("{}", out);
            return;
        }
        #[cfg(walrus_verif)]
        {
            if let Some(f) = op["fault"].as_object() {
                let kind: &'static str = match f["kind"].as_str().unwrap_or("") {
                    "uring_cqe" => "uring_cqe",
                    "create_file" => "create_file",
                    _ => "flush",
                };
                walrus_rust::wal::verif::set_fault(kind, f["nth"].as_u64().unwrap_or(1));
            }
            CUR_OP.store(i, std::sync::atomic::Ordering::Relaxed);
            walrus_rust::wal::verif::arm(op["abort_at_event"].as_u64().unwrap_or(0));
        }
        let res = catch_unwind(AssertUnwindSafe(|| -> Value {
            match kind {
                "restart_process" => json!({"ok": true}),
                "power_loss" => power_loss(&dir, &snap, op),
                "abort_now" => { std::process::abort(); }
                "open" | "reopen" => {
                    insts.remove(&iname);
                    let d = if let Some(sub) = op["subdir"].as_str() { let p = dir.join(sub); let _ = std::fs::create_dir_all(&p); p } else { dir.clone() };
                    match open(cfg, &d, op) {
                        Ok(w) => { insts.insert(iname.clone(), w); json!({"ok": true}) }
                        Err(e) => err_json(&e),
                    }
                }
                "close" => { insts.remove(&iname); json!({"ok": true}) }
                "append" => {
                    let e = &op["entries"][0];
                    let data = payload(e["uid"].as_u64().unwrap(), e["len"].as_u64().unwrap() as usize);
                    match insts[&iname].append_for_topic(&topic, &data) { Ok(()) => json!({"ok": true}), Err(e) => err_json(&e) }
                }
                "batch_append" => {
                    let es = op["entries"].as_array().unwrap();
                    // identical (uid,len) pairs alias one buffer so that >RAM batches can be expressed
                    let mut bufs: HashMap<(u64, usize), Vec<u8>> = HashMap::new();
                    for e in es {
                        let k = (e["uid"].as_u64().unwrap(), e["len"].as_u64().unwrap() as usize);
                        bufs.entry(k).or_insert_with(|| payload(k.0, k.1));
                    }
                    let refs: Vec<&[u8]> = es.iter().map(|e| bufs[&(e["uid"].as_u64().unwrap(), e["len"].as_u64().unwrap() as usize)].as_slice()).collect();
                    match insts[&iname].batch_append_for_topic(&topic, &refs) { Ok(()) => json!({"ok": true}), Err(e) => err_json(&e) }
                }
                "read_next" => {
                    match insts[&iname].read_next(&topic, op["checkpoint"].as_bool().unwrap_or(true)) {
                        Ok(Some(e)) => json!({"entries": [table.identify(&topic, &e.data)]}),
                        Ok(None) => json!({"entries": []}),
                        Err(e) => err_json(&e),
                    }
                }
                "batch_read" => {
                    let budget = op["budget"].as_u64().unwrap() as usize;
                    let so = op["start_offset"].as_u64();
                    match insts[&iname].batch_read_for_topic(&topic, budget, op["checkpoint"].as_bool().unwrap_or(true), so) {
                        Ok(v) => json!({"entries": v.iter().map(|e| table.identify(&topic, &e.data)).collect::<Vec<_>>()}),
                        Err(e) => err_json(&e),
                    }
                }
                "count" => json!({"count": insts[&iname].get_topic_entry_count(&topic)}),
                "mark_clean" => { insts[&iname].mark_topic_clean(&topic); json!({"ok": true}) }
                "mark_dirty" => { insts[&iname].mark_topic_dirty(&topic); json!({"ok": true}) }
                "is_clean" => json!({"clean": insts[&iname].topic_is_clean(&topic)}),
                "sleep_ms" => { std::thread::sleep(std::time::Duration::from_millis(op["ms"].as_u64().unwrap())); json!({"ok": true}) }
                "list_dir" => json!({"files": list_dir(&dir)}),
                "par" => {
                    // threads: one list of sub-operations per thread. With `schedule` (hooks build) the threads are
                    // serialised: every thread parks at its start and at every verif::sched_point, and whenever nobody
                    // runs the controller releases the thread named by the next schedule entry.
                    let threads: Vec<Vec<Value>> = if let Some(ts) = op["threads"].as_array() {
                        ts.iter().map(|t| t.as_array().cloned().unwrap_or_default()).collect()
                    } else {
                        op["ops"].as_array().unwrap().iter().map(|o| vec![o.clone()]).collect()
                    };
                    let n = threads.len();
                    let controlled = op["schedule"].is_array() && cfg!(walrus_verif);
                    #[cfg(walrus_verif)]
                    if controlled {
                        let sched: Vec<usize> = op["schedule"].as_array().unwrap().iter().map(|v| v.as_u64().unwrap() as usize).collect();
                        *ctl::CTL.lock().unwrap() = Some(ctl::Ctl { sched, pos: 0, running: None, parked: vec![false; n], done: vec![false; n], diverged: false });
                        walrus_rust::wal::verif::set_sched_hook(Some(ctl::hook));
                    }
                    let barrier = std::sync::Barrier::new(n);
                    let w = &insts[&iname];
                    let table_ref = &table;
                    let results: Vec<Value> = std::thread::scope(|sc| {
                        let hs: Vec<_> = threads.iter().enumerate().map(|(ti, subs)| {
                            let barrier = &barrier;
                            sc.spawn(move || {
                                let _ = ti;
                                barrier.wait();
                                #[cfg(walrus_verif)]
                                if controlled { ctl::TIDX.with(|c| c.set(Some(ti))); ctl::park(ti); }
                                let mut out = Vec::new();
                                for so in subs {
                                    let t = so["topic"].as_str().unwrap_or("t").to_string();
                                    let bufs: Vec<Vec<u8>> = so["entries"].as_array().map(|es| es.iter().map(|e| payload(e["uid"].as_u64().unwrap(), e["len"].as_u64().unwrap() as usize)).collect()).unwrap_or_default();
                                    let r = catch_unwind(AssertUnwindSafe(|| match so["op"].as_str().unwrap() {
                                        "read_next" => match w.read_next(&t, true) {
                                            Ok(Some(e)) => json!({"entries": [table_ref.identify(&t, &e.data)]}),
                                            Ok(None) => json!({"entries": []}),
                                            Err(e) => err_json(&e),
                                        },
                                        "batch_read" => match w.batch_read_for_topic(&t, so["budget"].as_u64().unwrap() as usize, true, None) {
                                            Ok(v) => json!({"entries": v.iter().map(|e| table_ref.identify(&t, &e.data)).collect::<Vec<_>>()}),
                                            Err(e) => err_json(&e),
                                        },
                                        "append" => match w.append_for_topic(&t, &bufs[0]) { Ok(()) => json!({"ok": true}), Err(e) => err_json(&e) },
                                        "batch_append" => {
                                            let refs: Vec<&[u8]> = bufs.iter().map(|b| b.as_slice()).collect();
                                            match w.batch_append_for_topic(&t, &refs) { Ok(()) => json!({"ok": true}), Err(e) => err_json(&e) }
                                        }
                                        other => json!({"unsupported_op": other}),
                                    })).unwrap_or(json!({"panic": "operation panicked"}));
                                    out.push(r);
                                }
                                #[cfg(walrus_verif)]
                                if controlled { ctl::finish(ti); }
                                json!(out)
                            })
                        }).collect();
                        hs.into_iter().map(|h| h.join().unwrap_or(json!({"panic": "thread panicked"}))).collect()
                    });
                    #[allow(unused_mut)]
                    let mut outv = json!({"results": results});
                    #[cfg(walrus_verif)]
                    if controlled {
                        walrus_rust::wal::verif::set_sched_hook(None);
                        if let Some(c) = ctl::CTL.lock().unwrap().take() { outv["schedule_diverged"] = json!(c.diverged); outv["schedule_used"] = json!(c.pos); }
                    }
                    outv
                }
                "corrupt" => {
                    // damage a file of the (closed) instance: overwrite bytes, truncate, or drop a stray file
                    use std::io::{Seek, SeekFrom, Write};
                    let sub = op["subdir"].as_str().map(|s| dir.join(s)).unwrap_or(dir.clone());
                    let mut files: Vec<PathBuf> = std::fs::read_dir(&sub).map(|rd| rd.flatten().map(|e| e.path()).filter(|p| p.is_file()).collect()).unwrap_or_default();
                    files.sort();
                    let target: Option<PathBuf> = match op["file"].as_str() {
                        Some("index") => Some(sub.join("read_offset_idx_index.db")),
                        Some("markers") => Some(sub.join("topic_clean_index.db")),
                        Some(name) if name.starts_with("stray:") => Some(sub.join(&name[6..])),
                        _ => {
                            let wal: Vec<&PathBuf> = files.iter().filter(|p| !p.to_string_lossy().ends_with("_index.db") && !p.to_string_lossy().ends_with(".tmp")).collect();
                            wal.get(op["wal_index"].as_u64().unwrap_or(0) as usize).map(|p| (*p).clone())
                        }
                    };
                    match target {
                        None => json!({"err": "no such file"}),
                        Some(path) => {
                            let mut f = std::fs::OpenOptions::new().read(true).write(true).create(true).open(&path).unwrap();
                            if let Some(n) = op["truncate"].as_u64() { f.set_len(n).unwrap(); }
                            if let Some(bytes) = op["bytes"].as_array() {
                                f.seek(SeekFrom::Start(op["offset"].as_u64().unwrap_or(0))).unwrap();
                                let b: Vec<u8> = bytes.iter().map(|x| x.as_u64().unwrap() as u8).collect();
                                f.write_all(&b).unwrap();
                            }
                            json!({"ok": true, "path": path.file_name().unwrap().to_string_lossy()})
                        }
                    }
                }
                "dump" => {
                    use std::io::{Read, Seek, SeekFrom};
                    let mut files: Vec<PathBuf> = std::fs::read_dir(&dir).map(|rd| rd.flatten().map(|e| e.path()).filter(|p| p.is_file()).collect()).unwrap_or_default();
                    files.sort();
                    let wal: Vec<&PathBuf> = files.iter().filter(|p| !p.to_string_lossy().ends_with("_index.db")).collect();
                    let mut f = std::fs::File::open(wal[op["wal_index"].as_u64().unwrap_or(0) as usize]).unwrap();
                    f.seek(SeekFrom::Start(op["offset"].as_u64().unwrap_or(0))).unwrap();
                    let mut buf = vec![0u8; op["len"].as_u64().unwrap_or(64) as usize];
                    let _ = f.read(&mut buf);
                    json!({"bytes": buf})
                }
                other => json!({"unsupported_op": other}),
            }
        }));
        let mut out = match res {
            Ok(v) => v,
            Err(p) => {
                let msg = p.downcast_ref::<String>().cloned().or_else(|| p.downcast_ref::<&str>().map(|s| s.to_string())).unwrap_or_default();
                json!({"panic": msg})
            }
        };
        #[cfg(walrus_verif)]
        {
            let ev = walrus_rust::wal::verif::disarm();
            out["events"] = json!(ev);
            for k in ["uring_cqe", "create_file", "flush"] {
                walrus_rust::wal::verif::set_fault(k, 0);
            }
        }
        out["i"] = json!(i);
        out["op"] = json!(kind);
        println!("{}", out);
        i += 1;
    }
}
